package rules

import (
	"fmt"
	"go/types"
	"sort"
	"strings"

	"golang.org/x/tools/go/ssa"

	"grogverif/engine"
)

func init() { register("C08", runC08) }

func runC08(c *Check, tier string) {
	c.Decides = "the two-tier wrapper starts a write to both tiers on every path that can report success, and each tier's error reaches the returned error; a remote read fills the local tier with exactly the remote content and returns a fresh local read, a remote error is an error; a positive existence answer implies presence in the remote tier; in each remote backend all four operations address the object through the same function of (namespace, key), Exists distinguishes not-found from other errors, and Get never returns (nil, nil); a digest is remembered as present only after the backend write succeeded; a failed copy feeding the two tier writers closes both pipes with the error."
	c.NotDec = "real S3/GCS semantics, two-machine histories, content equality, hangs inside the SDKs."
	w := findWrapper(c, "R08a")
	ruleR08a(c, w)
	ruleR08b(c, w, "R08b")
	ruleR08c(c, w)
	ruleR08d(c, w)
	c.Rule("R08e", "no dangling references: the directory handler uploads exactly the files its tree names, then the tree, then returns the record (same obligations as R01d for the handler)", 3)
	dirWriteOrder(c, "R08e")
	// a digest is remembered as present only after it really is (otherwise a parallel writer of the same
	// blob reports success while the upload it relies on can still fail: dangling reference in the remote)
	ruleR07e(c, "R08f")
	rulePipeErrorPropagated(c, "R08g")
	ruleReaderConsumedOnce(c, "R08h", "caching", "output")
	// the second machine restores what the first one stored
	useFamily(c, "R08j", famRestore, 20)
	// what fills the local tier and what is stored for others is whole, published once, and no write error is lost
	useFamily(c, "R08k", famStore, 20)
	ruleCommitOnlyAfterCopy(c, "R08l")
	ruleNoSharedReaderFromSingleflight(c, "R08m")
	// what the second machine is told exists was uploaded
	ruleRecordOnlyAfterStore(c, "R08n")
	ruleStoreReaderFresh(c, "R08o")
	rulePendingEntryReleased(c, "R08p", "caching", "caching/backends", "output", "output/handlers")
	// a restore on the second machine reports the blobs it could not fetch
	shareRule(c, "R08i", "an error channel whose sends never block (select/default) has room for at least one error (same obligation as R04d)", 1, "R04d", func(sub *Check) { ruleR04d(sub) }, func(k string) bool { return strings.Contains(k, "output/handlers") || strings.Contains(k, "caching") })
	// round 7: a remote miss or error never turns into a hang: slots taken around cache reads are given back on the error path too
	shareRule(c, "R08q", "every semaphore slot acquired around a cache operation is released on every path to return, the failing ones included (same obligations as R04g)", 1, "R04g", func(sub *Check) { ruleSemaphorePairing(sub, "R04g") }, nil)
	// round 8: what a build published stays published; a broken stream is not a short blob
	ruleBuildNeverDeletesResults(c, "R08r")
	ruleStreamErrorIsNotEOF(c, "R08s", "caching", "output/handlers")
}

type wrapperInfo struct {
	T        *types.Named
	FsField  string
	RemField string
	Methods  map[string]*ssa.Function
}

func backendImpls(c *Check) []types.Type {
	be := c.P.Type("caching/backends", "CacheBackend")
	if be == nil {
		return nil
	}
	return c.P.Implementers(be.Underlying().(*types.Interface))
}

// findWrapper: the CacheBackend implementation that holds a *FileSystemCache and another CacheBackend.
func findWrapper(c *Check, rule string) *wrapperInfo {
	for _, t := range backendImpls(c) {
		n := engine.NamedOf(t)
		st, ok := n.Underlying().(*types.Struct)
		if !ok {
			continue
		}
		w := &wrapperInfo{T: n, Methods: map[string]*ssa.Function{}}
		for i := 0; i < st.NumFields(); i++ {
			ft := st.Field(i).Type()
			if engine.TypeKey(ft) == "caching/backends.FileSystemCache" {
				w.FsField = st.Field(i).Name()
			} else if engine.TypeKey(ft) == "caching/backends.CacheBackend" {
				w.RemField = st.Field(i).Name()
			}
		}
		if w.FsField == "" || w.RemField == "" {
			continue
		}
		for _, m := range []string{"Get", "Set", "Exists", "Delete"} {
			w.Methods[m] = c.P.Func("caching/backends", n.Obj().Name(), m)
		}
		return w
	}
	c.Unknown(rule, "anchor/two-tier-wrapper", "anchor-unresolved: no CacheBackend implementation holding a *FileSystemCache and a CacheBackend", "-")
	return nil
}

// tierCalls: calls of method `m` on the wrapper's fs / remote field inside fn and its literals.
func (w *wrapperInfo) tierCalls(c *Check, fn *ssa.Function, m string) (fs, rem []ssa.CallInstruction) {
	for _, f := range engine.AnonFuncsDeep(fn) {
		for _, s := range engine.SitesIn(f) {
			cc := s.Common()
			var recv ssa.Value
			name := ""
			if cc.IsInvoke() {
				recv, name = cc.Value, cc.Method.Name()
			} else if sc := cc.StaticCallee(); sc != nil && sc.Signature.Recv() != nil && len(cc.Args) > 0 {
				recv, name = cc.Args[0], sc.Name()
			}
			if name != m || recv == nil {
				continue
			}
			if isLoadOfField(recv, fk(engine.TypeKey(w.T), w.FsField)) {
				fs = append(fs, s)
			}
			if isLoadOfField(recv, fk(engine.TypeKey(w.T), w.RemField)) {
				rem = append(rem, s)
			}
			// the tier may reach a local helper as a parameter (`writeTo(rw.fs, …)`): the helper's call
			// sites are then the tier calls, and the call inside the helper is what carries the error
			if prm, ok := recv.(*ssa.Parameter); ok && f != fn {
				idx := -1
				for i, q := range f.Params {
					if q == prm {
						idx = i
					}
				}
				for _, cs := range c.G.CallersOf(f) {
					if idx < 0 || idx >= len(cs.Common().Args) || engine.TopFunc(cs.Parent()) != fn {
						continue
					}
					arg := cs.Common().Args[idx]
					for {
						if mi, ok := arg.(*ssa.MakeInterface); ok {
							arg = mi.X
						} else if ci, ok := arg.(*ssa.ChangeInterface); ok {
							arg = ci.X
						} else {
							break
						}
					}
					if isLoadOfField(arg, fk(engine.TypeKey(w.T), w.FsField)) {
						fs = append(fs, cs)
						tierInner[cs] = s
					}
					if isLoadOfField(arg, fk(engine.TypeKey(w.T), w.RemField)) {
						rem = append(rem, cs)
						tierInner[cs] = s
					}
				}
			}
		}
	}
	// the tier may also be handed to a named helper (`go storeFromPipe(ctx, &wg, rw.fs, …)`)
	stripIface := func(v ssa.Value) ssa.Value {
		for {
			if mi, ok := v.(*ssa.MakeInterface); ok {
				v = mi.X
			} else if ci, ok := v.(*ssa.ChangeInterface); ok {
				v = ci.X
			} else {
				return v
			}
		}
	}
	for _, f := range engine.AnonFuncsDeep(fn) {
		for _, cs := range engine.SitesIn(f) {
			h := cs.Common().StaticCallee()
			if h == nil || len(h.Blocks) == 0 || h.Parent() != nil || !engine.IsFirstParty(pkgPathOf(h)) || h == fn {
				continue
			}
			for i, arg := range cs.Common().Args {
				arg = stripIface(arg)
				isFs := isLoadOfField(arg, fk(engine.TypeKey(w.T), w.FsField))
				isRem := isLoadOfField(arg, fk(engine.TypeKey(w.T), w.RemField))
				if (!isFs && !isRem) || i >= len(h.Params) {
					continue
				}
				for _, hf := range engine.AnonFuncsDeep(h) {
					for _, s := range engine.SitesIn(hf) {
						cc := s.Common()
						var recv ssa.Value
						name := ""
						if cc.IsInvoke() {
							recv, name = cc.Value, cc.Method.Name()
						} else if sc := cc.StaticCallee(); sc != nil && sc.Signature.Recv() != nil && len(cc.Args) > 0 {
							recv, name = cc.Args[0], sc.Name()
						}
						if name != m || recv != ssa.Value(h.Params[i]) {
							continue
						}
						if isFs {
							fs = append(fs, cs)
						} else {
							rem = append(rem, cs)
						}
						tierInner[cs] = s
					}
				}
			}
		}
	}
	return
}

// tierInner: for a tier call made through a local helper, the call inside the helper that touches the tier.
var tierInner = map[ssa.CallInstruction]ssa.CallInstruction{}

// siteInTop: the instruction of `top` (a go/call/MakeClosure) through which the nested call executes.
func siteInTop(c *Check, top *ssa.Function, call ssa.CallInstruction) ssa.Instruction {
	if call.Parent() == top {
		return call
	}
	lit := call.Parent()
	for lit.Parent() != nil && lit.Parent() != top {
		lit = lit.Parent()
	}
	for _, s := range engine.SitesIn(top) {
		for _, f := range c.G.CalleesOf(s) {
			if f == lit {
				return s
			}
		}
	}
	// the literal is handed to a helper that runs it (`spawn(func() {…})`, an error group's Go)
	for _, s := range engine.SitesIn(top) {
		for _, a := range s.Common().Args {
			if mc, ok := a.(*ssa.MakeClosure); ok && mc.Fn == ssa.Value(lit) {
				return s
			}
		}
	}
	return nil
}

func ruleR08a(c *Check, w *wrapperInfo) {
	c.Rule("R08a", "in the wrapper's Set a write to the local tier and a write to the remote tier are started on every path that can return nil; inside their goroutines a non-nil error is always handed to the error channel; the function returns nil only when no error was collected from that channel", 4)
	if w == nil {
		return
	}
	fn := w.Methods["Set"]
	if fn == nil {
		c.Unknown("R08a", "anchor/wrapper.Set", "anchor-unresolved", "-")
		return
	}
	fname := c.P.FuncName(fn)
	fs, rem := w.tierCalls(c, fn, "Set")
	mayBeNilReturn := func(in ssa.Instruction) bool {
		r, ok := in.(*ssa.Return)
		return ok && !definitelyNonNilReturn(fn, r)
	}
	collected := map[string]bool{} // variables the tier errors are appended to (a hand-written error group)
	for name, calls := range map[string][]ssa.CallInstruction{"local": fs, "remote": rem} {
		key := "both-tiers-written/" + name + "/" + fname
		if len(calls) == 0 {
			c.Bad("R08a", key, "Set never writes the "+name+" tier", c.P.Pos(fn.Pos()))
			continue
		}
		var sites []ssa.Instruction
		for _, cl := range calls {
			if s := siteInTop(c, fn, cl); s != nil {
				sites = append(sites, s)
			}
		}
		isSite := func(in ssa.Instruction) bool {
			for _, s := range sites {
				if in == s {
					return true
				}
			}
			return false
		}
		reach, at := engine.PathExists(fn, nil, mayBeNilReturn, engine.PathQuery{CutInstr: isSite})
		pos := c.P.InstrPos(calls[0])
		if at != nil {
			pos = c.P.InstrPos(at)
		}
		c.Require(!reach, "R08a", key, "every return that may report success is preceded by a write to the "+name+" tier", "Set can report success without having written the "+name+" tier: the result or blob would be missing there (e.g. a stale remote entry survives, or a local-only blob is referenced by a remote result)", pos)
		// error handed on inside the goroutine
		for _, cl := range calls {
			if inner, ok := tierInner[cl]; ok {
				cl = inner
			}
			lit := cl.Parent()
			if lit == fn {
				continue
			}
			// the write as a function value that returns the tier's error, run by a shared goroutine body
			// (`go feed(..., func(r io.Reader) error { return tier.Set(...) })`): the error is handed on where
			// that function value is called
			if engine.ErrResultIndex(lit.Signature) >= 0 && forwardsError(lit, cl) {
				for _, d := range c.G.CallersOf(lit) {
					if dc, isCall := d.(*ssa.Call); isCall && d.Parent() != fn && engine.ErrResultIndex(dc.Call.Signature()) >= 0 {
						cl, lit = d, d.Parent()
						break
					}
				}
			}
			fwd := errForwarders(cl)
			for f := range fwd {
				collectCells(c, f, collected, 0)
			}
			isFwd := func(in ssa.Instruction) bool { return fwd[in] }
			isRet := func(in ssa.Instruction) bool { _, r := in.(*ssa.Return); return r }
			reach, _ := engine.PathExists(lit, cl, isRet, engine.PathQuery{CutEdge: engine.NilErrEdgesOf(cl), CutInstr: isFwd})
			c.Require(!reach && len(fwd) > 0, "R08a", "tier-error-reported/"+name+"/"+fname, "a failed "+name+" write always sends its error to the error channel", "the error of the "+name+" write can be dropped inside its goroutine: Set would report success although that tier was not written", c.P.InstrPos(cl))
		}
	}
	// nil only when nothing was collected
	// (the collecting loop and the len()==0 test may live in helpers of Set)
	region := regionOf(c, fn)
	inRegion := func(e *engine.Edge) bool { return e.Via != nil && region[engine.TopFunc(e.Via.Parent())] }
	var recvs []ssa.Value
	for rf := range region {
		for _, b := range rf.Blocks {
			for _, in := range b.Instrs {
				if u, ok := in.(*ssa.UnOp); ok && u.Op.String() == "<-" {
					recvs = append(recvs, u)
				}
			}
		}
	}
	okCollect := false
	if len(recvs) > 0 || len(collected) > 0 {
		reach, _ := nilReturnReachable(fn, engine.PathQuery{CutEdge: engine.CutEdgesWhere(func(a engine.Atom) bool {
			arg, ok := lenArg(a.V)
			if !ok {
				return false
			}
			k, isK := a.Other.(*ssa.Const)
			if !isK || k.Value == nil || k.Int64() != 0 || !(a.Op == "le" || a.Op == "eq") {
				return false
			}
			if collected[engine.ExprKey(arg)] {
				return true
			}
			back := c.G.Backward([]Node{arg}, inRegion)
			for _, r := range recvs {
				if back.Has(r) {
					return true
				}
			}
			return false
		})}, 0)
		okCollect = !reach
		// every non-nil error received from the channel is kept (appended / stored) before the next receive
		for _, rv := range recvs {
			u := rv.(*ssa.UnOp)
			var val, okv ssa.Value = u, nil
			if u.CommaOk {
				val = nil
				for _, ref := range *u.Referrers() {
					if ex, isEx := ref.(*ssa.Extract); isEx {
						if ex.Index == 0 {
							val = ex
						} else {
							okv = ex
						}
					}
				}
			}
			if val == nil {
				continue // the value is discarded: not an error collector
			}
			if _, isErr := val.Type().Underlying().(*types.Interface); !isErr {
				continue
			}
			fw := map[ssa.Instruction]bool{}
			valueForwarders(val, fw, 0)
			g := u.Parent()
			cut := engine.CutEdgesWhere(func(a engine.Atom) bool {
				if a.Op == "nil" && a.V == val {
					return true
				}
				return okv != nil && a.Op == "false" && a.V == okv
			})
			lost, _ := engine.PathExists(g, u, func(in ssa.Instruction) bool {
				_, isRet := in.(*ssa.Return)
				return (isRet && in.Parent() == g) || in == ssa.Instruction(u)
			}, engine.PathQuery{CutEdge: cut, CutInstr: func(in ssa.Instruction) bool { return fw[in] }, Shallow: true})
			if lost {
				okCollect = false
			}
		}
	}
	c.Require(okCollect, "R08a", "nil-only-without-errors/"+fname, "`return nil` is dominated by `len(collected errors) == 0` where the errors are received from the goroutines' channel", "Set can return nil although an error was received from one of the tier writers (or the channel is never drained)", c.P.Pos(fn.Pos()))
}

// collectCells: the forwarder appends the error to a slice variable (directly, or inside the closure it
// calls): record that variable's name — the function's "no error collected" test is about it.
func collectCells(c *Check, f ssa.Instruction, out map[string]bool, depth int) {
	call, ok := f.(*ssa.Call)
	if !ok || depth > 2 {
		return
	}
	record := func(app *ssa.Call) {
		for _, ref := range *app.Referrers() {
			if st, ok := ref.(*ssa.Store); ok && st.Val == ssa.Value(app) {
				out[engine.ExprKey(st.Addr)] = true
				// a load of the cell is what len() sees
				out[strings.TrimPrefix(engine.ExprKey(st.Addr), "*")] = true
			}
		}
		out[engine.ExprKey(app.Call.Args[0])] = true
	}
	if b, ok := call.Call.Value.(*ssa.Builtin); ok && b.Name() == "append" {
		record(call)
		return
	}
	for _, h := range c.G.Callees[call] {
		for _, bb := range h.Blocks {
			for _, in := range bb.Instrs {
				if inner, ok := in.(*ssa.Call); ok {
					if b, ok := inner.Call.Value.(*ssa.Builtin); ok && b.Name() == "append" {
						record(inner)
					}
				}
			}
		}
	}
}

func ruleR08b(c *Check, w *wrapperInfo, rule string) {
	c.Rule(rule, "in the wrapper's Get: the remote is asked only after the local read failed; its error is returned; the remote content is what is written to the local tier; the returned reader is a local read (never the remote stream)", 3)
	if w == nil {
		return
	}
	fn := w.Methods["Get"]
	if fn == nil {
		return
	}
	fname := c.P.FuncName(fn)
	// the remote fetch and the local fill may sit in a helper of Get (same receiver)
	region := regionOf(c, fn)
	var regionFns []*ssa.Function
	for f := range region {
		if f.Signature.Recv() != nil && fn.Signature.Recv() != nil && types.Identical(f.Signature.Recv().Type(), fn.Signature.Recv().Type()) && (f == fn || (f.Name() != "Set" && f.Name() != "Exists" && f.Name() != "Delete")) {
			regionFns = append(regionFns, f)
		}
	}
	sort.Slice(regionFns, func(i, j int) bool { return c.P.FuncName(regionFns[i]) < c.P.FuncName(regionFns[j]) })
	fsGet, _ := w.tierCalls(c, fn, "Get")
	var remGet, fsSet []ssa.CallInstruction
	for _, f := range regionFns {
		_, rg := w.tierCalls(c, f, "Get")
		fsS, _ := w.tierCalls(c, f, "Set")
		remGet = append(remGet, rg...)
		fsSet = append(fsSet, fsS...)
	}
	if len(fsGet) == 0 || len(remGet) == 0 || len(fsSet) == 0 {
		c.Bad(rule, "read-through/"+fname, fmt.Sprintf("Get does not implement read-through (local reads: %d, remote reads: %d, local fills: %d)", len(fsGet), len(remGet), len(fsSet)), c.P.Pos(fn.Pos()))
		return
	}
	// fill content is the remote stream
	okFill := true
	for _, s := range fsSet {
		g := s.Parent()
		args := s.Common().Args
		content := args[len(args)-1]
		set := map[ssa.CallInstruction]int{}
		for _, r := range remGet {
			if r.Parent() == g {
				set[r] = 0
			}
		}
		if len(set) == 0 || !engine.OriginsAllFromCall(content, set, false) {
			okFill = false
		}
		for r := range set {
			if wy := onlyAfterSuccess(g, r, s); wy != "" {
				okFill = false
			}
		}
		// a fill inside a helper: Get learns of its failure (and of a failed fetch)
		if g != fn {
			isThis := func(x ssa.CallInstruction) bool {
				return x == s || set[x] == 0 && containsCall(remGet, x) && x.Parent() == g
			}
			lifted, leaks := liftedSites(c, fn, isThis, 0)
			if len(lifted) == 0 || len(leaks) > 0 {
				okFill = false
			}
		}
	}
	c.Require(okFill, rule, "fill-local-with-remote/"+fname, "the local tier is filled with exactly the stream returned by a successful remote Get", "the local tier is filled with something other than the successfully fetched remote content", c.P.InstrPos(fsSet[0]))
	// returned reader comes from a local Get
	okRet := true
	for _, r := range engine.Returns(fn) {
		if !isNilErrReturn(r) && !returnsCallResult(r, fsGet) {
			continue
		}
		for _, o := range engine.Origins(r.Results[0]) {
			if o == nil {
				continue
			}
			call, idx := engine.CallOf(o)
			if k, isK := o.(*ssa.Const); isK && k.Value == nil {
				continue
			}
			if call == nil || idx != 0 || !containsCall(fsGet, call) {
				okRet = false
			}
		}
	}
	c.Require(okRet, rule, "return-local-reader/"+fname, "every reader handed out comes from a read of the local tier", "Get hands out a reader that is not a read of the local tier (a remote stream would bypass the local fill and could be partially consumed)", c.P.Pos(fn.Pos()))
	requireNoDroppedErrors(c, rule, regionFns, nil)
}

func returnsCallResult(r *ssa.Return, calls []ssa.CallInstruction) bool {
	for _, v := range r.Results {
		if call, _ := engine.CallOf(v); call != nil && containsCall(calls, call) {
			return true
		}
	}
	return false
}

func ruleR08c(c *Check, w *wrapperInfo) {
	c.Rule("R08c", "every path on which the wrapper's Exists answers true passes a positive answer of the remote tier (Cas.Write skips the upload when Exists is true, so a local-only 'true' leaves the blob missing from the remote)", 1)
	if w == nil {
		return
	}
	fn := w.Methods["Exists"]
	if fn == nil {
		return
	}
	fname := c.P.FuncName(fn)
	_, rem := w.tierCalls(c, fn, "Exists")
	bad := ""
	var pos string
	for _, r := range engine.Returns(fn) {
		if len(r.Results) != 2 {
			continue
		}
		// may this return answer true?
		mayTrue := false
		for _, o := range engine.Origins(r.Results[0]) {
			if o == nil {
				continue
			}
			if k, ok := engine.BoolConst(o); ok {
				if k {
					mayTrue = true
				}
				continue
			}
			if call, idx := engine.CallOf(o); call != nil && idx == 0 && containsCall(rem, call) {
				continue // the remote's own answer
			}
			mayTrue = true
		}
		if !mayTrue {
			continue
		}
		reach, _ := engine.PathExists(fn, nil, engine.IsInstr(r), engine.PathQuery{CutEdge: engine.CutEdgesWhere(atomFromCall("true", 0, rem...))})
		if reach || len(rem) == 0 {
			bad = "Exists answers true on a local hit without asking the remote tier"
			pos = c.P.InstrPos(r)
		}
	}
	c.Require(bad == "", "R08c", "exists-implies-remote/"+fname, "a positive answer always includes the remote tier's positive answer", bad, pos)
}

func ruleR08d(c *Check, w *wrapperInfo) {
	c.Rule("R08d", "in each remote backend, Get/Set/Delete/Exists compute the object name with the same helper applied to (namespace, key) in that order; Exists has a not-found => (false, nil) path and an other-error => (false, err) path; Get never returns (nil, nil)", 6)
	var remotes []*types.Named
	for _, t := range backendImpls(c) {
		n := engine.NamedOf(t)
		if n == nil || (w != nil && n == w.T) || engine.TypeKey(n) == "caching/backends.FileSystemCache" {
			continue
		}
		remotes = append(remotes, n)
	}
	sort.Slice(remotes, func(i, j int) bool { return remotes[i].Obj().Name() < remotes[j].Obj().Name() })
	for _, n := range remotes {
		tname := n.Obj().Name()
		helper := map[string]string{}
		for _, m := range []string{"Get", "Set", "Delete", "Exists"} {
			fn := c.P.Func("caching/backends", tname, m)
			if fn == nil {
				continue
			}
			found := ""
			for _, s := range engine.SitesIn(fn) {
				sc := s.Common().StaticCallee()
				if sc == nil || sc.Signature.Recv() == nil || len(s.Common().Args) != 3 {
					continue
				}
				a := s.Common().Args
				if a[0] == ssa.Value(fn.Params[0]) && len(fn.Params) >= 4 {
					if a[1] == ssa.Value(fn.Params[2]) && a[2] == ssa.Value(fn.Params[3]) {
						found = sc.Name()
					} else if sc.Signature.Results().Len() == 1 && sc.Signature.Results().At(0).Type().String() == "string" {
						found = sc.Name() + "(arguments not (namespace, key) in order)"
					}
				}
			}
			helper[m] = found
		}
		same := helper["Get"] != "" && !strings.Contains(helper["Get"], "(")
		for _, m := range []string{"Set", "Delete", "Exists"} {
			if helper[m] != helper["Get"] {
				same = false
			}
		}
		c.Require(same, "R08d", "same-object-name/"+tname, "Get, Set, Delete and Exists all address "+helper["Get"]+"(namespace, key)", fmt.Sprintf("the four operations do not address the object through the same function of (namespace, key): %v — what one writes another would not find", helper), "-")
		// Exists not-found semantics (look through a thin adapter)
		ex := c.P.Func("caching/backends", tname, "Exists")
		if ex != nil {
			target := ex
			rets := engine.Returns(ex)
			if len(rets) == 1 {
				if call, _ := engine.CallOf(rets[0].Results[0]); call != nil {
					for _, f := range c.G.Callees[call] {
						target = f
					}
				}
			}
			var falseNil, falseErr, trueNil bool
			for _, r := range engine.Returns(target) {
				if len(r.Results) != 2 {
					continue
				}
				b, isB := engine.BoolConst(r.Results[0])
				nilErr := isNilErrReturn(r)
				switch {
				case isB && !b && nilErr:
					falseNil = true
				case isB && !b && !nilErr:
					falseErr = true
				case isB && b && nilErr:
					trueNil = true
				}
			}
			c.Require(falseNil && falseErr && trueNil, "R08d", "exists-semantics/"+tname, "Exists has (true,nil), not-found => (false,nil) and other-error => (false,err) returns", fmt.Sprintf("Exists does not distinguish not-found from failure (has (false,nil): %v, (false,err): %v, (true,nil): %v): a remote error would read as a miss or a miss as an error", falseNil, falseErr, trueNil), c.P.Pos(target.Pos()))
		}
		if g := c.P.Func("caching/backends", tname, "Get"); g != nil {
			bad := false
			for _, r := range engine.Returns(g) {
				if len(r.Results) == 2 && isNilErrReturn(r) {
					if k, ok := r.Results[0].(*ssa.Const); ok && k.Value == nil {
						bad = true
					}
				}
			}
			c.Require(!bad, "R08d", "get-never-nil-nil/"+tname, "Get returns a reader or an error", "Get can return (nil, nil): callers would dereference a nil reader", c.P.Pos(g.Pos()))
		}
	}
	c.Note("S3 always namespaces by a hash of the absolute checkout path; GCS does so unless shared_cache is set (then the directory base name). The property conditions on 'same workspace identity', so this is a configuration fact, not a violation.")
}
