package rules

import (
	"fmt"

	"golang.org/x/tools/go/ssa"

	"grogverif/engine"
)

// Shared analysis of the cache-hit gate (used by C02, C13, C14, C15).

type gateInfo struct {
	Fn        *ssa.Function
	Hits      []*ssa.Return // returns of dag.CacheHit
	Lookup    ssa.CallInstruction
	Target    ssa.Value // the *model.Target the gate is about (base of the ChangeHash read)
	Tainted   []ssa.CallInstruction
	PreChecks []ssa.CallInstruction // output checks run before the decision
	Ex        *execAnchors
}

func analyseGate(c *Check, rule string) *gateInfo {
	gate := findGate(c, rule)
	if gate == nil {
		return nil
	}
	ex := findExec(c, rule)
	if ex == nil {
		return nil
	}
	g := &gateInfo{Fn: gate, Ex: ex}
	g.Hits = returnsConst(gate, 0, c.P.Const("dag", "CacheHit"))
	load := c.P.Func("caching", "TargetResultCache", "Load")
	lk := callsToFn(c, gate, load)
	if len(lk) != 1 {
		c.Unknown(rule, "anchor/gate-lookup", fmt.Sprintf("expected one result lookup in the gate, found %d", len(lk)), "-")
		return nil
	}
	g.Lookup = lk[0]
	args := g.Lookup.Common().Args
	if base, ok := fieldReadOn(args[len(args)-1], "ChangeHash"); ok {
		g.Target = base
	}
	if isT := c.P.Func("caching", "TaintCache", "IsTainted"); isT != nil {
		g.Tainted = callsToFn(c, gate, isT)
	}
	g.PreChecks = callsToFn(c, gate, ex.OutputChecks)
	return g
}

// hitRequires: every path from the gate's entry to each `return CacheHit`
// takes a branch edge whose atom satisfies pred.
func (g *gateInfo) hitRequires(pred func(a engine.Atom) bool) (bool, *ssa.Return) {
	for _, h := range g.Hits {
		if ok, _ := engine.PathExists(g.Fn, nil, engine.IsInstr(h), engine.PathQuery{CutEdge: engine.CutEdgesWhere(pred)}); ok {
			return false, h
		}
	}
	return true, nil
}

// atomFromCall: the atom tests result #idx of one of the calls with the given op.
func atomFromCall(op string, idx int, calls ...ssa.CallInstruction) func(a engine.Atom) bool {
	set := map[ssa.CallInstruction]int{}
	for _, c := range calls {
		set[c] = idx
	}
	return func(a engine.Atom) bool {
		return a.Op == op && engine.OriginsAllFromCall(a.V, set, false)
	}
}

// atomCallTo: the atom tests (with op) the result of a call that may invoke fn,
// whose receiver/first argument is the given variable (nil: any).
func atomCallTo(c *Check, op string, fn *ssa.Function, on ssa.Value) func(a engine.Atom) bool {
	return func(a engine.Atom) bool {
		if a.Op != op {
			return false
		}
		orig := engine.Origins(a.V)
		if len(orig) == 0 {
			return false
		}
		for _, o := range orig {
			call, _ := engine.CallOf(o)
			if call == nil {
				return false
			}
			hit := false
			for _, f := range c.G.CalleesOf(call) {
				if f == fn {
					hit = true
				}
			}
			if !hit {
				return false
			}
			if on != nil {
				args := call.Common().Args
				if len(args) == 0 || !sameVar(args[0], on) {
					return false
				}
			}
		}
		return true
	}
}

// atomDerivedFrom: the atom tests (with op) a value that derives from the abstract field.
func atomDerivedFrom(c *Check, op string, key engine.FieldKey) func(a engine.Atom) bool {
	return func(a engine.Atom) bool {
		if a.Op != op || a.V == nil {
			return false
		}
		back := c.G.Backward([]Node{a.V}, func(e *engine.Edge) bool { return e.Kind != engine.EField })
		return back.Has(key)
	}
}

// gateHelperSite: a call in the gate to a function of the same package that the decision was moved into.
type gateHelperSite struct {
	Call   *ssa.Call
	Helper *ssa.Function
}

// gateHelpersCalling: the static calls of the gate to same-package helpers that directly call target.
func gateHelpersCalling(c *Check, gate *ssa.Function, target *ssa.Function) []gateHelperSite {
	var out []gateHelperSite
	for _, s := range engine.SitesIn(gate) {
		call, ok := s.(*ssa.Call)
		if !ok {
			continue
		}
		h := call.Call.StaticCallee()
		if h == nil || len(h.Blocks) == 0 || h.Pkg != engine.TopFunc(gate).Pkg || h == target {
			continue
		}
		if len(callsToFn(c, h, target)) > 0 {
			out = append(out, gateHelperSite{call, h})
		}
	}
	return out
}

// mayBeTrueReturn: a return of a bool function whose value is not the constant false.
func mayBeTrueReturn(in ssa.Instruction) bool {
	r, ok := in.(*ssa.Return)
	if !ok || len(r.Results) != 1 {
		return false
	}
	if k, isK := engine.BoolConst(r.Results[0]); isK {
		return k
	}
	return true
}
