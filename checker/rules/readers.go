package rules

import (
	"go/types"
	"sort"
	"strings"

	"golang.org/x/tools/go/ssa"

	"grogverif/engine"
)

// ruleReaderConsumedOnce (shared by C07, C08, C01): an io.Reader is a one-shot stream. Handing the same
// reader value to two consuming calls that can both execute on one path — a retry after a failed cache
// write, an upload attempted again in a loop — sends only what the first call left unread: a truncated
// (often empty) blob is stored under the digest of the whole content and reported as written.
func ruleReaderConsumedOnce(c *Check, rule string, pkgs ...string) {
	c.Rule(rule, "in "+strings.Join(pkgs, ", ")+": no io.Reader value is handed to a consuming call (a parameter of reader type, io.Copy/io.ReadAll source) at two sites where one can follow the other, nor at one site inside a loop that the reader is created outside of, unless it is a seeker that is rewound in between", 5)
	readerT := func(t types.Type) bool {
		it, ok := t.Underlying().(*types.Interface)
		if !ok {
			return false
		}
		for i := 0; i < it.NumMethods(); i++ {
			if it.Method(i).Name() == "Read" {
				return true
			}
		}
		return false
	}
	n := 0
	for _, fn := range c.P.Funcs {
		ok := false
		for _, p := range pkgs {
			if engine.InPackage(fn, p) {
				ok = true
			}
		}
		if !ok {
			continue
		}
		// consuming sites per reader value (identity after looking through interface conversions)
		type use struct {
			at ssa.CallInstruction
		}
		uses := map[ssa.Value][]use{}
		root := func(v ssa.Value) ssa.Value {
			for i := 0; i < 6; i++ {
				switch x := v.(type) {
				case *ssa.ChangeInterface:
					v = x.X
				case *ssa.MakeInterface:
					v = x.X
				case *ssa.TypeAssert:
					v = x.X
				default:
					o := engine.Origins(v)
					if len(o) == 1 && o[0] != nil && o[0] != v {
						v = o[0]
						continue
					}
					return v
				}
			}
			return v
		}
		for _, s := range engine.SitesIn(fn) {
			if _, isCall := s.(*ssa.Call); !isCall {
				continue
			}
			name := engine.CalleeName(s)
			if isLogOrErrCall(name) || strings.HasSuffix(name, ".Close") {
				continue
			}
			sig := s.Common().Signature()
			args := s.Common().Args
			off := 0
			if !s.Common().IsInvoke() && sig.Recv() != nil {
				off = 1
			}
			for i, a := range args {
				pi := i - off
				if pi < 0 || pi >= sig.Params().Len() {
					if !(sig.Variadic() && pi >= sig.Params().Len()-1) {
						continue
					}
					pi = sig.Params().Len() - 1
				}
				pt := sig.Params().At(pi).Type()
				if !readerT(pt) || !readerT(a.Type()) && !types.Implements(a.Type(), pt.Underlying().(*types.Interface)) {
					continue
				}
				// wrappers hand the stream on; they do not read it here
				if strings.Contains(name, "WrapRead") || name == "io.TeeReader" || name == "bufio.NewReader" || name == "io.NopCloser" || name == "io.MultiReader" {
					continue
				}
				r := root(a)
				uses[r] = append(uses[r], use{s})
			}
		}
		var keys []ssa.Value
		for r := range uses {
			keys = append(keys, r)
		}
		sort.Slice(keys, func(i, j int) bool { return uses[keys[i]][0].at.Pos() < uses[keys[j]][0].at.Pos() })
		for _, r := range keys {
			us := uses[r]
			n++
			rewinds := func(in ssa.Instruction) bool {
				call, ok := in.(*ssa.Call)
				if !ok || !strings.HasSuffix(engine.CalleeName(call), ".Seek") {
					return false
				}
				return len(call.Call.Args) > 0 && root(call.Call.Args[0]) == r || call.Call.IsInvoke() && root(call.Call.Value) == r
			}
			bad := ""
			var pos ssa.Instruction
			for i, u1 := range us {
				// again at the same site: a loop around it that does not re-create the reader
				if lp := engine.LoopOf(u1.at); lp != nil {
					inLoop := false
					if in, ok := r.(ssa.Instruction); ok && in.Block() != nil && lp.Body[in.Block()] {
						inLoop = true
					}
					if !inLoop {
						if again, _ := engine.PathExists(fn, u1.at, engine.IsInstr(u1.at), engine.PathQuery{CutInstr: rewinds, Shallow: true}); again {
							bad = "the same reader is handed to " + engine.CalleeName(u1.at) + " again on the next iteration of the loop"
							pos = u1.at
						}
					}
				}
				for j, u2 := range us {
					if i == j {
						continue
					}
					if follow, _ := engine.PathExists(fn, u1.at, engine.IsInstr(u2.at), engine.PathQuery{CutInstr: rewinds, Shallow: true}); follow {
						bad = "the reader already handed to " + engine.CalleeName(u1.at) + " (" + c.P.InstrPos(u1.at) + ") is handed to " + engine.CalleeName(u2.at) + " again"
						pos = u2.at
					}
				}
			}
			p := c.P.InstrPos(us[0].at)
			if pos != nil {
				p = c.P.InstrPos(pos)
			}
			c.Require(bad == "", rule, "reader-consumed-once/"+c.P.FuncName(fn)+"/"+strings.ReplaceAll(engine.CalleeName(us[0].at), "grog/internal/", ""), "the stream is consumed by one call", bad+": a one-shot stream yields only what the first consumer left unread, so the second attempt stores a truncated (possibly empty) object under the full key and reports success", p)
		}
	}
	if n == 0 {
		c.Unknown(rule, "reader-consumed-once", "no call with a reader argument found", "-")
	}
}

// ruleNoSharedReaderFromSingleflight: what singleflight.Group.Do returns is handed to every caller that asked
// for the same key at the same time. A reader (io.Reader, *os.File, an open body) is a one-shot, stateful
// object: shared, each caller gets a disjoint part of the stream and a clean EOF.
func ruleNoSharedReaderFromSingleflight(c *Check, rule string) {
	c.Rule(rule, "no function passed to singleflight.Group.Do/DoChan returns an io.Reader (or anything that implements it): a result that is shared between concurrent callers is not a stream", 0)
	var readerIface *types.Interface
	for _, pkg := range c.P.Pkgs {
		for _, imp := range pkg.Types.Imports() {
			if imp.Path() == "io" {
				if o := imp.Scope().Lookup("Reader"); o != nil {
					readerIface, _ = o.Type().Underlying().(*types.Interface)
				}
			}
		}
	}
	n := 0
	for _, fn := range c.P.Funcs {
		for _, s := range engine.SitesIn(fn) {
			name := engine.CalleeName(s)
			if !strings.HasSuffix(name, "singleflight.Group).Do") && !strings.HasSuffix(name, "singleflight.Group).DoChan") {
				continue
			}
			n++
			bad := ""
			for _, a := range s.Common().Args {
				if _, ok := a.Type().Underlying().(*types.Signature); !ok {
					continue
				}
				for _, lit := range c.G.FuncValuesReaching(a) {
					for _, r := range engine.Returns(lit) {
						if len(r.Results) == 0 {
							continue
						}
						for _, o := range engine.Origins(r.Results[0]) {
							if o == nil {
								continue
							}
							t := o.Type()
							if tup, ok := t.(*types.Tuple); ok && tup.Len() > 0 {
								t = tup.At(0).Type()
							}
							if ex, ok := o.(*ssa.Extract); ok {
								t = ex.Type()
							}
							if readerIface != nil && (types.Implements(t, readerIface) || types.Implements(types.NewPointer(t), readerIface)) {
								bad = "the shared function returns a " + t.String()
							}
						}
					}
				}
			}
			c.Require(bad == "", rule, "no-shared-reader/"+c.P.FuncName(fn), "the collapsed call returns a value, not a stream", bad+": concurrent callers for the same key all receive this one reader, so each restore reads a disjoint part of the blob and sees a clean EOF (silently truncated files), or a handle another caller already closed", c.P.InstrPos(s))
		}
	}
	if n == 0 {
		c.OK(rule, "no-shared-reader", "singleflight is not used", "-")
	}
}
