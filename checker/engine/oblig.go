package engine

import (
	"encoding/json"
	"fmt"
	"os"
	"sort"
	"strings"
	"time"
)

type Status string

const (
	Discharged Status = "discharged"
	Violated   Status = "violated"
	Undecided  Status = "undecided"
)

// Obligation is one instance of a rule on one construct of the program.
type Obligation struct {
	Rule    string `json:"rule"`
	Key     string `json:"key"` // rule/function/construct — never a line number
	Status  Status `json:"status"`
	Witness string `json:"witness,omitempty"` // why it is discharged / what is wrong
	Pos     string `json:"pos,omitempty"`     // file:line, for the human only
	Known   bool   `json:"known_finding,omitempty"`
}

type RuleInfo struct {
	ID    string `json:"id"`
	Doc   string `json:"doc"`
	Min   int    `json:"min_instances"`
	Count int    `json:"instances"`
}

// Check collects the obligations of one property.
type Check struct {
	Property string
	P        *Program
	G        *VFG
	Rules    []*RuleInfo
	ruleIdx  map[string]*RuleInfo
	Obls     []*Obligation
	keys     map[string]int
	Notes    []string
	Decides  string // what the rules decide
	NotDec   string // what they do not
	Assume   []string
	Start    time.Time
}

func NewCheck(prop string, p *Program, g *VFG) *Check {
	return &Check{Property: prop, P: p, G: g, ruleIdx: map[string]*RuleInfo{}, keys: map[string]int{}, Start: time.Now()}
}

// Rule declares a rule with its documentation and frozen minimum instance count.
func (c *Check) Rule(id, doc string, min int) {
	r := &RuleInfo{ID: id, Doc: doc, Min: min}
	c.Rules = append(c.Rules, r)
	c.ruleIdx[id] = r
}

func (c *Check) add(rule, key string, st Status, witness, pos string) *Obligation {
	full := rule + "/" + key
	c.keys[full]++
	if n := c.keys[full]; n > 1 {
		full = fmt.Sprintf("%s#%d", full, n)
	}
	o := &Obligation{Rule: rule, Key: full, Status: st, Witness: witness, Pos: pos}
	c.Obls = append(c.Obls, o)
	if r := c.ruleIdx[rule]; r != nil {
		r.Count++
	} else {
		// an anchor lookup that fails before its rule was declared (the construct the rule reads is gone):
		// the obligation is kept — undecided obligations fail the check — under an implicitly declared rule
		c.Rule(rule, "(declared implicitly: an anchor of this rule could not be resolved before the rule ran)", 0)
		c.ruleIdx[rule].Count++
	}
	return o
}

func (c *Check) OK(rule, key, witness, pos string)  { c.add(rule, key, Discharged, witness, pos) }
func (c *Check) Bad(rule, key, what, pos string)    { c.add(rule, key, Violated, what, pos) }
func (c *Check) Unknown(rule, key, why, pos string) { c.add(rule, key, Undecided, why, pos) }

// Require records an obligation from a boolean.
func (c *Check) Require(ok bool, rule, key, okWitness, badWhat, pos string) bool {
	if ok {
		c.OK(rule, key, okWitness, pos)
	} else {
		c.Bad(rule, key, badWhat, pos)
	}
	return ok
}

func (c *Check) Note(format string, a ...any) { c.Notes = append(c.Notes, fmt.Sprintf(format, a...)) }

// ---------------------------------------------------------------------------
// Known findings

type Finding struct {
	Property string `json:"property"`
	Key      string `json:"key"`
	Status   string `json:"status"` // "known" | "fixed"
	Commit   string `json:"commit,omitempty"`
	What     string `json:"what"`
	Line     string `json:"line,omitempty"`
}

type FindingsFile struct {
	Comment  string    `json:"comment,omitempty"`
	Findings []Finding `json:"findings"`
}

func LoadFindings(path string) (*FindingsFile, error) {
	ff := &FindingsFile{}
	data, err := os.ReadFile(path)
	if err != nil {
		if os.IsNotExist(err) {
			return ff, nil
		}
		return nil, err
	}
	if err := json.Unmarshal(data, ff); err != nil {
		return nil, fmt.Errorf("%s: %w", path, err)
	}
	return ff, nil
}

// ---------------------------------------------------------------------------
// Finishing: verdict, evidence, output lines

type Result struct {
	Violations int
	Known      int
	Undecided  int
}

// Finish applies minimum counts and known findings, writes the evidence file,
// prints the verdict lines and returns the process exit code.
func (c *Check) Finish(tier string, seed int64, evidencePath string, ff *FindingsFile, extra map[string]any) int {
	// rules that lost their subject
	for _, r := range c.Rules {
		if r.Count < r.Min {
			c.Obls = append(c.Obls, &Obligation{
				Rule: r.ID, Key: r.ID + "/instance-count", Status: Undecided,
				Witness: fmt.Sprintf("rule matched %d constructs, fewer than the %d confirmed by hand: the rule lost its subject (anchor moved or code restructured beyond the recognised idioms)", r.Count, r.Min),
			})
		}
	}
	known := map[string]Finding{}
	for _, f := range ff.Findings {
		if f.Property == c.Property && f.Status == "known" {
			known[f.Key] = f
		}
	}
	res := Result{}
	var lines []string
	discharged := 0
	nontrivial := map[string]bool{}
	// A listed finding whose site was renamed or moved into a helper: the listed key no longer names any
	// obligation of this run (it is neither discharged nor violated — the construct is gone), and a
	// violation of the same rule and construct kind appears at a site that is not listed. Such a violation
	// is the listed finding at its new site, one for one; any violation beyond the number of displaced
	// entries of that kind is reported as new.
	present := map[string]bool{}
	for _, o := range c.Obls {
		present[o.Key] = true
	}
	displaced := map[string][]Finding{}
	var knownKeys []string
	for k := range known {
		knownKeys = append(knownKeys, k)
	}
	sort.Strings(knownKeys)
	for _, k := range knownKeys {
		if !present[k] {
			displaced[keyKind(k)] = append(displaced[keyKind(k)], known[k])
		}
	}
	moved := map[*Obligation]Finding{}
	var unlisted []*Obligation
	for _, o := range c.Obls {
		if _, ok := known[o.Key]; o.Status == Violated && !ok {
			unlisted = append(unlisted, o)
		}
	}
	sort.Slice(unlisted, func(i, j int) bool { return unlisted[i].Key < unlisted[j].Key })
	for _, o := range unlisted {
		kind := keyKind(o.Key)
		if d := displaced[kind]; len(d) > 0 {
			moved[o] = d[0]
			displaced[kind] = d[1:]
		}
	}
	for _, o := range c.Obls {
		switch o.Status {
		case Discharged:
			discharged++
			if o.Witness != "" {
				nontrivial[o.Key] = true
			}
		case Violated:
			if f, ok := known[o.Key]; ok {
				o.Known = true
				res.Known++
				lines = append(lines, fmt.Sprintf("KNOWN-FINDING: property=%s %s [%s at %s]", c.Property, clip(f.What, 400), o.Key, o.Pos))
				nontrivial[o.Key] = true
			} else if f, ok := moved[o]; ok {
				o.Known = true
				res.Known++
				lines = append(lines, fmt.Sprintf("KNOWN-FINDING: property=%s %s [listed as %s, whose site no longer exists; same rule and construct now at %s, %s]", c.Property, clip(f.What, 400), f.Key, o.Key, o.Pos))
				nontrivial[o.Key] = true
			} else {
				res.Violations++
				lines = append(lines, fmt.Sprintf("  violated %s at %s: %s", o.Key, o.Pos, clip(o.Witness, 400)))
			}
		case Undecided:
			res.Undecided++
			lines = append(lines, fmt.Sprintf("  undecided %s at %s: %s", o.Key, o.Pos, clip(o.Witness, 400)))
		}
	}
	sort.Strings(lines)
	fail := res.Violations > 0 || res.Undecided > 0

	var ruleDocs []string
	for _, r := range c.Rules {
		ruleDocs = append(ruleDocs, fmt.Sprintf("%s (%d instances, min %d): %s", r.ID, r.Count, r.Min, r.Doc))
	}
	explanation := "Static analysis of the type-checked source and SSA form of /repo's working tree (nothing is executed). " +
		"DECIDES: " + c.Decides + " DOES NOT DECIDE: " + c.NotDec + " RULES: " + strings.Join(ruleDocs, " | ")
	samples := make([]any, 0, len(c.Obls))
	for _, o := range c.Obls {
		samples = append(samples, o)
	}
	cov := map[string]any{
		"explanation":         explanation,
		"obligations":         len(c.Obls),
		"discharged":          discharged,
		"evaluations":         len(c.Obls),
		"distinct_nontrivial": len(nontrivial),
		"rule":                "one obligation per (rule, enclosing function, construct); non-trivial = discharged with a concrete witness (dominating condition, flow path, guard) or a triaged known finding; keys are position-free",
		"samples":             samples,
		"rules":               c.Rules,
		"packages":            len(c.P.Pkgs),
		"functions_analysed":  len(c.P.Funcs),
		"call_sites":          len(c.G.Sites),
		"vfg_edges":           c.G.NumEdges,
		"known_findings":      res.Known,
		"undecided":           res.Undecided,
		"notes":               c.Notes,
		"exhaustive":          false,
	}
	for k, v := range extra {
		cov[k] = v
	}
	ev := map[string]any{
		"property_id": c.Property,
		"tier":        tier,
		"seed":        seed,
		"level":       "other",
		"coverage":    cov,
		"assumptions": append([]string{
			"go/types and go/ssa (x/tools v0.50.0) model the program faithfully",
			"third-party and standard-library code behaves as documented; only first-party code is analysed",
			"the value-flow graph is field-based and flow-insensitive (over-approximates flows)",
		}, c.Assume...),
		"wall_s":     time.Since(c.Start).Seconds() + c.P.LoadWall,
		"violations": res.Violations + res.Undecided,
	}
	data, _ := json.MarshalIndent(ev, "", " ")
	if err := os.WriteFile(evidencePath, data, 0644); err != nil {
		fmt.Printf("cannot write evidence: %v\n", err)
		fail = true
	}
	fmt.Printf("property %s tier=%s: %d obligations, %d discharged, %d violated, %d known findings, %d undecided (%d funcs, %d call sites)\n",
		c.Property, tier, len(c.Obls), discharged, res.Violations, res.Known, res.Undecided, len(c.P.Funcs), len(c.G.Sites))
	for _, r := range c.Rules {
		fmt.Printf("  rule %s: %d instances (min %d)\n", r.ID, r.Count, r.Min)
	}
	for _, l := range lines {
		fmt.Println(l)
	}
	if fail {
		fmt.Printf("VIOLATION property=%s replay=%s\n", c.Property, evidencePath)
		return 1
	}
	return 0
}

// keyKind strips the site (function names) from an obligation key: rule/construct[/variant].
func keyKind(key string) string {
	segs := strings.Split(key, "/")
	var out []string
	for _, sg := range segs {
		if strings.HasPrefix(sg, "(") || strings.Contains(sg, ".") {
			break
		}
		out = append(out, sg)
	}
	return strings.Join(out, "/")
}

// FailIncomplete is used when the analysis itself could not run.
func FailIncomplete(prop, tier string, seed int64, evidencePath string, err error) int {
	ev := map[string]any{
		"property_id": prop, "tier": tier, "seed": seed, "level": "other",
		"coverage": map[string]any{
			"explanation": "analysis-incomplete: " + err.Error(),
			"obligations": 0, "discharged": 0,
		},
		"wall_s": 0.0, "violations": 1,
	}
	data, _ := json.MarshalIndent(ev, "", " ")
	_ = os.WriteFile(evidencePath, data, 0644)
	fmt.Printf("analysis-incomplete for %s: %v\n", prop, err)
	fmt.Printf("VIOLATION property=%s replay=%s\n", prop, evidencePath)
	return 1
}

func clip(s string, n int) string {
	s = strings.ReplaceAll(s, "\n", " ")
	if len(s) > n {
		return s[:n] + "… (full text in the evidence file)"
	}
	return s
}
