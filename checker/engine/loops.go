package engine

import (
	"go/constant"
	"go/token"

	"golang.org/x/tools/go/ssa"
)

// Loop is a natural loop of the CFG.
type Loop struct {
	Fn     *ssa.Function
	Header *ssa.BasicBlock
	Body   map[*ssa.BasicBlock]bool // includes the header
}

// LoopsOf returns the natural loops of fn (one per header).
func LoopsOf(fn *ssa.Function) []*Loop {
	var loops []*Loop
	byHeader := map[*ssa.BasicBlock]*Loop{}
	for _, b := range fn.Blocks {
		for _, s := range b.Succs {
			if s.Dominates(b) { // back edge b -> s
				lp := byHeader[s]
				if lp == nil {
					lp = &Loop{Fn: fn, Header: s, Body: map[*ssa.BasicBlock]bool{s: true}}
					byHeader[s] = lp
					loops = append(loops, lp)
				}
				// nodes that reach b without passing the header
				work := []*ssa.BasicBlock{b}
				for len(work) > 0 {
					x := work[len(work)-1]
					work = work[:len(work)-1]
					if lp.Body[x] {
						continue
					}
					lp.Body[x] = true
					work = append(work, x.Preds...)
				}
			}
		}
	}
	return loops
}

// LoopOf returns the innermost natural loop containing the instruction.
func LoopOf(in ssa.Instruction) *Loop {
	var best *Loop
	for _, lp := range LoopsOf(in.Parent()) {
		if lp.Body[in.Block()] {
			if best == nil || len(lp.Body) < len(best.Body) {
				best = lp
			}
		}
	}
	return best
}

// LoopsContaining returns every loop containing the instruction, innermost first.
func LoopsContaining(in ssa.Instruction) []*Loop {
	var out []*Loop
	for _, lp := range LoopsOf(in.Parent()) {
		if lp.Body[in.Block()] {
			out = append(out, lp)
		}
	}
	for i := 0; i < len(out); i++ {
		for j := i + 1; j < len(out); j++ {
			if len(out[j].Body) < len(out[i].Body) {
				out[i], out[j] = out[j], out[i]
			}
		}
	}
	return out
}

func intConst(v ssa.Value) (int64, bool) {
	c, ok := v.(*ssa.Const)
	if !ok || c.Value == nil || c.Value.Kind() != constant.Int {
		return 0, false
	}
	n, ok := constant.Int64Val(c.Value)
	return n, ok
}

func isLenCall(v ssa.Value) (ssa.Value, bool) {
	c, ok := v.(*ssa.Call)
	if !ok {
		return nil, false
	}
	b, ok := c.Call.Value.(*ssa.Builtin)
	if !ok || b.Name() != "len" || len(c.Call.Args) != 1 {
		return nil, false
	}
	return c.Call.Args[0], true
}

// RangedValue returns the collection a full-range loop iterates, or nil if the
// loop is not recognised as "visit every element once".
//
// Accepted forms: `for i, x := range S` (slice/array: hidden index from -1,
// incremented in the header, compared with len(S)); `for i := 0; i < len(S); i++`;
// `for k, v := range M` / channel / string (Range+Next, left when Next reports !ok).
func (lp *Loop) RangedValue() ssa.Value {
	h := lp.Header
	if len(h.Instrs) == 0 {
		return nil
	}
	ifi, ok := h.Instrs[len(h.Instrs)-1].(*ssa.If)
	if !ok {
		return nil
	}
	// Range/Next form
	if ex, ok := ifi.Cond.(*ssa.Extract); ok && ex.Index == 0 {
		if nx, ok := ex.Tuple.(*ssa.Next); ok {
			if r, ok := nx.Iter.(*ssa.Range); ok {
				if lp.Body[h.Succs[0]] && !lp.Body[h.Succs[1]] {
					return r.X
				}
			}
		}
	}
	cmp, ok := ifi.Cond.(*ssa.BinOp)
	if !ok || cmp.Op != token.LSS {
		return nil
	}
	coll, ok := isLenCall(cmp.Y)
	if !ok {
		return nil
	}
	if !(lp.Body[h.Succs[0]] && !lp.Body[h.Succs[1]]) {
		return nil
	}
	// rangeindex: cmp.X = phi + 1, phi = [-1, cmp.X]
	if inc, ok := cmp.X.(*ssa.BinOp); ok && inc.Op == token.ADD {
		if one, ok := intConst(inc.Y); ok && one == 1 {
			if phi, ok := inc.X.(*ssa.Phi); ok && phi.Block() == h {
				if phiInitStep(phi, -1, inc) {
					return coll
				}
			}
		}
	}
	// classic: cmp.X = phi, phi = [0, phi+1]
	if phi, ok := cmp.X.(*ssa.Phi); ok && phi.Block() == h {
		for _, e := range phi.Edges {
			if inc, ok := e.(*ssa.BinOp); ok && inc.Op == token.ADD && inc.X == ssa.Value(phi) {
				if one, ok := intConst(inc.Y); ok && one == 1 && phiInitStep(phi, 0, inc) {
					return coll
				}
			}
		}
	}
	return nil
}

func phiInitStep(phi *ssa.Phi, init int64, step ssa.Value) bool {
	if len(phi.Edges) < 2 {
		return false
	}
	var okInit, okStep bool
	for _, e := range phi.Edges {
		if n, ok := intConst(e); ok && n == init {
			okInit = true
		} else if e == step {
			okStep = true
		} else {
			return false
		}
	}
	return okInit && okStep
}

// IsFullRange: the loop visits every element of a collection exactly once.
func (lp *Loop) IsFullRange() bool { return lp.RangedValue() != nil }

// EarlyExitReaches: some exit from the loop body (break, return, goto — any
// exit other than the header's "range exhausted" edge) can reach an
// instruction satisfying pred. Returns a description or "".
func (lp *Loop) EarlyExitReaches(pred func(ssa.Instruction) bool) string {
	for b := range lp.Body {
		if b == lp.Header {
			continue
		}
		for _, s := range b.Succs {
			if lp.Body[s] {
				continue
			}
			if len(s.Instrs) == 0 {
				continue
			}
			if pred(s.Instrs[0]) {
				return "exit from block " + b.Comment + " reaches it directly"
			}
			if ok, _ := PathExists(lp.Fn, s.Instrs[0], pred, PathQuery{}); ok {
				return "exit from loop body block '" + b.Comment + "'"
			}
		}
	}
	return ""
}

// ExitBlocks lists blocks outside the loop entered from the loop body (not the header).
func (lp *Loop) ExitBlocks() []*ssa.BasicBlock {
	var out []*ssa.BasicBlock
	for b := range lp.Body {
		if b == lp.Header {
			continue
		}
		for _, s := range b.Succs {
			if !lp.Body[s] {
				out = append(out, s)
			}
		}
	}
	return out
}

// IterationCanSkip: within one iteration of the loop (from the first
// instruction of the body to the next evaluation of the header, never leaving
// the loop) there is a path that crosses no cut instruction and no cut edge.
func (lp *Loop) IterationCanSkip(cutInstr func(ssa.Instruction) bool, cutEdge func(b *ssa.BasicBlock, succ int) bool) bool {
	var bodyEntry *ssa.BasicBlock
	for _, s := range lp.Header.Succs {
		if lp.Body[s] && s != lp.Header {
			bodyEntry = s
		}
	}
	if bodyEntry == nil {
		return false
	}
	visited := map[*ssa.BasicBlock]bool{bodyEntry: true}
	work := []*ssa.BasicBlock{bodyEntry}
	for len(work) > 0 {
		b := work[len(work)-1]
		work = work[:len(work)-1]
		stopped := false
		for _, in := range b.Instrs {
			if cutInstr != nil && cutInstr(in) {
				stopped = true
				break
			}
		}
		if stopped {
			continue
		}
		for i, s := range b.Succs {
			if cutEdge != nil && cutEdge(b, i) {
				continue
			}
			if s == lp.Header {
				return true
			}
			if !lp.Body[s] || visited[s] {
				continue
			}
			visited[s] = true
			work = append(work, s)
		}
	}
	return false
}
