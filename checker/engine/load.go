// Package engine holds the shared static-analysis machinery: loading of
// /repo's current working tree, SSA construction, the value-flow graph, the
// first-party call graph, CFG path queries, lock sets and the obligation /
// evidence bookkeeping. Nothing here executes grog.
package engine

import (
	"fmt"
	"go/ast"
	"go/token"
	"go/types"
	"os"
	"path/filepath"
	"sort"
	"strings"
	"time"

	"golang.org/x/tools/go/packages"
	"golang.org/x/tools/go/ssa"
	"golang.org/x/tools/go/ssa/ssautil"
)

// ModulePath is the module path of the repository under analysis.
const ModulePath = "grog"

// Program is the loaded, type-checked and SSA-converted repository.
type Program struct {
	RepoDir string
	Fset    *token.FileSet
	// All first-party packages (module grog, excluding examples/docs/integration).
	Pkgs     []*packages.Package
	PkgByID  map[string]*packages.Package
	SSA      *ssa.Program
	SSAPkgs  map[string]*ssa.Package
	Funcs    []*ssa.Function // every first-party function with a body, incl. literals
	FuncSet  map[*ssa.Function]bool
	AllTypes []*types.Named // every first-party named (non-alias) type
	LoadWall float64
	Overlay  map[string][]byte
}

// IsFirstParty reports whether a package path belongs to the product code.
func IsFirstParty(path string) bool {
	if path == ModulePath {
		return true
	}
	return strings.HasPrefix(path, ModulePath+"/internal/")
}

// Load loads /repo (or repoDir) from its current working tree.
func Load(repoDir string, overlay map[string][]byte) (*Program, error) {
	os.Unsetenv("GOWORK")
	// /repo needs go >= 1.26; the default go on PATH is older and cannot switch toolchains offline.
	if _, err := os.Stat("/opt/veriftools/go1.26.8/bin/go"); err == nil && !strings.Contains(os.Getenv("PATH"), "/opt/veriftools/go1.26.8/bin") {
		os.Setenv("PATH", "/opt/veriftools/go1.26.8/bin:"+os.Getenv("PATH"))
	}
	fset := token.NewFileSet()
	cfg := &packages.Config{
		// first-party packages from source; dependencies from export data (their
		// bodies are never analysed), which keeps a warm run at about two seconds
		Mode: packages.NeedName | packages.NeedFiles | packages.NeedCompiledGoFiles |
			packages.NeedImports | packages.NeedTypes | packages.NeedExportFile |
			packages.NeedTypesSizes | packages.NeedSyntax | packages.NeedTypesInfo |
			packages.NeedModule,
		Dir:     repoDir,
		Fset:    fset,
		Tests:   false,
		Overlay: overlay,
		Env:     append(os.Environ(), "GOWORK=off", "GOFLAGS=-mod=mod", "GOPROXY=off", "GOSUMDB=off", "GOTOOLCHAIN=local"),
	}
	t0 := time.Now()
	initial, err := packages.Load(cfg, "./...")
	if os.Getenv("GROGCHECK_TIMING") != "" {
		fmt.Fprintf(os.Stderr, "packages.Load %.1fs\n", time.Since(t0).Seconds())
	}
	if err != nil {
		return nil, fmt.Errorf("packages.Load: %w", err)
	}
	if len(initial) == 0 {
		return nil, fmt.Errorf("no packages loaded from %s", repoDir)
	}
	p := &Program{
		RepoDir: repoDir, Fset: fset, PkgByID: map[string]*packages.Package{},
		SSAPkgs: map[string]*ssa.Package{}, FuncSet: map[*ssa.Function]bool{}, Overlay: overlay,
	}
	var errs []string
	for _, pkg := range initial {
		if !IsFirstParty(pkg.PkgPath) {
			continue
		}
		for _, e := range pkg.Errors {
			errs = append(errs, e.Error())
		}
		if pkg.Types == nil || pkg.TypesInfo == nil {
			errs = append(errs, "package "+pkg.PkgPath+" has no type information")
		}
		for _, f := range pkg.IgnoredFiles {
			if strings.HasSuffix(f, ".go") && !strings.HasSuffix(f, "_test.go") {
				errs = append(errs, "configuration not covered: build-constrained file ignored: "+f)
			}
		}
		p.Pkgs = append(p.Pkgs, pkg)
		p.PkgByID[pkg.PkgPath] = pkg
	}
	if len(errs) > 0 {
		sort.Strings(errs)
		return nil, fmt.Errorf("first-party load errors:\n  %s", strings.Join(errs, "\n  "))
	}
	if len(p.Pkgs) == 0 {
		return nil, fmt.Errorf("zero first-party packages under %s", repoDir)
	}
	sort.Slice(p.Pkgs, func(i, j int) bool { return p.Pkgs[i].PkgPath < p.Pkgs[j].PkgPath })

	prog, ssaPkgs := ssautil.Packages(initial, ssa.BuilderMode(0))
	prog.Build()
	p.SSA = prog
	for i, sp := range ssaPkgs {
		if sp != nil && IsFirstParty(initial[i].PkgPath) {
			p.SSAPkgs[initial[i].PkgPath] = sp
		}
	}
	for fn := range ssautil.AllFunctions(prog) {
		if fn.Pkg == nil || fn.Blocks == nil {
			continue
		}
		if !IsFirstParty(fn.Pkg.Pkg.Path()) {
			continue
		}
		if fn.Synthetic != "" && !strings.HasPrefix(fn.Synthetic, "package initializer") {
			// wrappers, bound-method thunks and instantiations: analysed through their origin
			continue
		}
		if fn.Origin() != nil && fn.Origin() != fn {
			continue
		}
		p.Funcs = append(p.Funcs, fn)
		p.FuncSet[fn] = true
	}

	for _, pkg := range p.Pkgs {
		scope := pkg.Types.Scope()
		for _, name := range scope.Names() {
			if tn, ok := scope.Lookup(name).(*types.TypeName); ok && !tn.IsAlias() {
				if named, ok := tn.Type().(*types.Named); ok {
					p.AllTypes = append(p.AllTypes, named)
				}
			}
		}
	}
	CanonicalNotes = nil
	p.computeTypeCanonical()
	p.computeCanonical()
	sort.Slice(p.Funcs, func(i, j int) bool { return p.FuncName(p.Funcs[i]) < p.FuncName(p.Funcs[j]) })
	return p, nil
}

// FuncName gives a stable, position-free name for a function:
// pkg.Func, pkg.(*T).M, pkg.Func$1 (paths relative to grog/internal/).
func (p *Program) FuncName(fn *ssa.Function) string {
	if fn == nil {
		return "<nil>"
	}
	s := canonString(fn)
	s = strings.ReplaceAll(s, ModulePath+"/internal/", "")
	return s
}

// Pos renders a token.Pos relative to the repo.
func (p *Program) Pos(pos token.Pos) string {
	if !pos.IsValid() {
		return "-"
	}
	pp := p.Fset.Position(pos)
	rel, err := filepath.Rel(p.RepoDir, pp.Filename)
	if err != nil {
		rel = pp.Filename
	}
	return fmt.Sprintf("%s:%d", rel, pp.Line)
}

// InstrPos finds the best position for an instruction (falls back to enclosing function).
func (p *Program) InstrPos(in ssa.Instruction) string {
	if in == nil {
		return "-"
	}
	if in.Pos().IsValid() {
		return p.Pos(in.Pos())
	}
	if v, ok := in.(ssa.Value); ok {
		for _, r := range *v.Referrers() {
			if r.Pos().IsValid() {
				return p.Pos(r.Pos())
			}
		}
	}
	// nearest positioned instruction in the same block
	if b := in.Block(); b != nil {
		for _, x := range b.Instrs {
			if x.Pos().IsValid() {
				return p.Pos(x.Pos())
			}
		}
		return p.Pos(b.Parent().Pos())
	}
	return "-"
}

// Func looks a function or method up by package path (relative to
// grog/internal/, or "" for main), optional receiver type name, and name.
func (p *Program) Func(pkgRel, recv, name string) *ssa.Function {
	if fn := p.funcByName(pkgRel, recv, name); fn != nil {
		return fn
	}
	path := ModulePath
	if pkgRel != "" {
		path = ModulePath + "/internal/" + pkgRel
	}
	return p.pinnedLookup(path, recv, name)
}

func (p *Program) funcByName(pkgRel, recv, name string) *ssa.Function {
	path := ModulePath
	if pkgRel != "" {
		path = ModulePath + "/internal/" + pkgRel
	}
	sp := p.SSAPkgs[path]
	if sp == nil {
		return nil
	}
	if recv == "" {
		return sp.Func(name)
	}
	tn, ok := sp.Pkg.Scope().Lookup(recv).(*types.TypeName)
	if !ok {
		for cand, old := range typeCanon {
			if old == recv && cand.Pkg() == sp.Pkg {
				tn, ok = cand, true
			}
		}
	}
	if !ok {
		return nil
	}
	for _, t := range []types.Type{tn.Type(), types.NewPointer(tn.Type())} {
		ms := p.SSA.MethodSets.MethodSet(t)
		for i := 0; i < ms.Len(); i++ {
			sel := ms.At(i)
			if sel.Obj().Name() == name && sel.Obj().Pkg() == sp.Pkg && len(sel.Index()) == 1 {
				fn := p.SSA.MethodValue(sel)
				if fn != nil {
					if fn.Synthetic != "" && fn.Origin() == nil {
						// pointer-receiver wrapper of a value method: find the declared one
						continue
					}
					if o := fn.Origin(); o != nil {
						return o
					}
					return fn
				}
			}
		}
	}
	// generic types: methods are found through the declared object
	if named, ok := tn.Type().(*types.Named); ok {
		for i := 0; i < named.NumMethods(); i++ {
			m := named.Method(i)
			if m.Name() == name {
				return p.SSA.FuncValue(m)
			}
		}
	}
	return nil
}

// Type looks a first-party named type up.
func (p *Program) Type(pkgRel, name string) *types.Named {
	path := ModulePath + "/internal/" + pkgRel
	pkg := p.PkgByID[path]
	if pkg == nil {
		return nil
	}
	tn, ok := pkg.Types.Scope().Lookup(name).(*types.TypeName)
	if !ok {
		for cand, old := range typeCanon {
			if old == name && cand.Pkg().Path() == path {
				tn, ok = cand, true
			}
		}
	}
	if !ok {
		return nil
	}
	n, _ := tn.Type().(*types.Named)
	return n
}

// Const returns a first-party package-level constant object.
func (p *Program) Const(pkgRel, name string) *types.Const {
	pkg := p.PkgByID[ModulePath+"/internal/"+pkgRel]
	if pkg == nil {
		return nil
	}
	c, _ := pkg.Types.Scope().Lookup(name).(*types.Const)
	return c
}

// Implementers returns the first-party named types T such that T or *T
// implements iface.
func (p *Program) Implementers(iface *types.Interface) []types.Type {
	var out []types.Type
	for _, n := range p.AllTypes {
		if _, isIface := n.Underlying().(*types.Interface); isIface {
			continue
		}
		if n.TypeParams().Len() > 0 {
			continue
		}
		if types.Implements(n, iface) {
			out = append(out, n)
		} else if ptr := types.NewPointer(n); types.Implements(ptr, iface) {
			out = append(out, ptr)
		}
	}
	return out
}

// FileOf returns the syntax tree containing pos.
func (p *Program) FileOf(pos token.Pos) (*ast.File, *packages.Package) {
	for _, pkg := range p.Pkgs {
		for _, f := range pkg.Syntax {
			if f.FileStart <= pos && pos <= f.FileEnd {
				return f, pkg
			}
		}
	}
	return nil, nil
}

// AnonFuncsDeep returns fn and all function literals nested in it.
func AnonFuncsDeep(fn *ssa.Function) []*ssa.Function {
	out := []*ssa.Function{fn}
	for _, a := range fn.AnonFuncs {
		out = append(out, AnonFuncsDeep(a)...)
	}
	return out
}

// Deref strips one pointer level.
func Deref(t types.Type) types.Type {
	if p, ok := t.Underlying().(*types.Pointer); ok {
		return p.Elem()
	}
	return t
}

// NamedOf returns the named type behind t (through one pointer), or nil.
func NamedOf(t types.Type) *types.Named {
	t = Deref(t)
	if a, ok := t.(*types.Alias); ok {
		t = types.Unalias(a)
	}
	n, _ := t.(*types.Named)
	return n
}

// TypeKey gives a stable key for a (possibly instantiated) named type.
func TypeKey(t types.Type) string {
	if n := NamedOf(t); n != nil {
		obj := n.Origin().Obj()
		name := obj.Name()
		if o, ok := typeCanon[obj]; ok {
			name = o
		}
		if obj.Pkg() != nil {
			return strings.TrimPrefix(obj.Pkg().Path(), ModulePath+"/internal/") + "." + name
		}
		return name
	}
	return Deref(t).String()
}
