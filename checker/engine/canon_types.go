package engine

import (
	_ "embed"
	"encoding/json"
	"go/types"
	"regexp"
	"sort"
	"strings"
)

// Renamed types and struct fields, recognised the same way as renamed functions (canon.go): the rules speak
// of the pinned tree's names; a type or field of the current tree that carries another name is mapped back
// when the old name is gone and exactly one new name of the same shape took its place.

//go:embed pinned_types.json
var pinnedTypesJSON []byte

type PinnedField struct {
	Name string `json:"name"`
	Type string `json:"type"`
}

type PinnedType struct {
	Pkg     string        `json:"pkg"`
	Name    string        `json:"name"`
	Kind    string        `json:"kind"` // struct | interface | other
	Fields  []PinnedField `json:"fields,omitempty"`
	Methods []string      `json:"methods,omitempty"` // interface methods
	Under   string        `json:"under,omitempty"`
	// Declared: names of the methods declared on the type (tells apart types of one shape)
	Declared []string `json:"declared,omitempty"`
}

// typeCanon: renamed type (current object) -> pinned name. typeRenames: "pkgpath.New" -> "pkgpath.Old".
var typeCanon = map[*types.TypeName]string{}
var typeRenames = map[string]string{}
var typeRenameRe *regexp.Regexp

// fieldCanon: canonical struct key ("pkg.Type", pinned name) -> current field name -> pinned field name.
var fieldCanon = map[string]map[string]string{}

// canonTypeString rewrites the names of renamed types inside a printed type / signature / function name.
func canonTypeString(s string) string {
	if typeRenameRe == nil {
		return s
	}
	return typeRenameRe.ReplaceAllStringFunc(s, func(m string) string {
		if o, ok := typeRenames[m]; ok {
			return o
		}
		return m
	})
}

func describeType(tn *types.TypeName) PinnedType {
	pt := PinnedType{Pkg: tn.Pkg().Path(), Name: tn.Name()}
	if named, ok := tn.Type().(*types.Named); ok {
		for i := 0; i < named.NumMethods(); i++ {
			pt.Declared = append(pt.Declared, named.Method(i).Name())
		}
		sort.Strings(pt.Declared)
	}
	switch u := tn.Type().Underlying().(type) {
	case *types.Struct:
		pt.Kind = "struct"
		for i := 0; i < u.NumFields(); i++ {
			pt.Fields = append(pt.Fields, PinnedField{u.Field(i).Name(), canonTypeString(types.TypeString(u.Field(i).Type(), nil))})
		}
	case *types.Interface:
		pt.Kind = "interface"
		for i := 0; i < u.NumMethods(); i++ {
			pt.Methods = append(pt.Methods, u.Method(i).Name())
		}
		sort.Strings(pt.Methods)
	default:
		pt.Kind = "other"
		pt.Under = canonTypeString(types.TypeString(u, nil))
	}
	return pt
}

// TopLevelTypes describes the named types of the program (for pinning).
func (p *Program) TopLevelTypes() []PinnedType {
	var out []PinnedType
	for _, n := range p.AllTypes {
		out = append(out, describeType(n.Obj()))
	}
	sort.Slice(out, func(i, j int) bool {
		if out[i].Pkg != out[j].Pkg {
			return out[i].Pkg < out[j].Pkg
		}
		return out[i].Name < out[j].Name
	})
	return out
}

func sameShape(a, b PinnedType, namesOnly bool) bool {
	if a.Kind != b.Kind {
		return false
	}
	switch a.Kind {
	case "struct":
		if len(a.Fields) != len(b.Fields) || len(a.Fields) == 0 {
			return false
		}
		for i := range a.Fields {
			if a.Fields[i].Name != b.Fields[i].Name {
				return false
			}
			if !namesOnly && a.Fields[i].Type != b.Fields[i].Type {
				return false
			}
		}
		return true
	case "interface":
		return len(a.Methods) > 0 && strings.Join(a.Methods, ",") == strings.Join(b.Methods, ",")
	}
	return !namesOnly && a.Under == b.Under && a.Under != ""
}

func (p *Program) computeTypeCanonical() {
	typeCanon = map[*types.TypeName]string{}
	typeRenames = map[string]string{}
	typeRenameRe = nil
	fieldCanon = map[string]map[string]string{}
	var pinned []PinnedType
	if len(pinnedTypesJSON) == 0 || json.Unmarshal(pinnedTypesJSON, &pinned) != nil {
		return
	}
	type id struct{ pkg, name string }
	pinnedIDs := map[id]PinnedType{}
	for _, pt := range pinned {
		pinnedIDs[id{pt.Pkg, pt.Name}] = pt
	}
	current := map[id]*types.TypeName{}
	for _, n := range p.AllTypes {
		current[id{n.Obj().Pkg().Path(), n.Obj().Name()}] = n.Obj()
	}
	rebuild := func() {
		if len(typeRenames) == 0 {
			typeRenameRe = nil
			return
		}
		var alts []string
		for k := range typeRenames {
			alts = append(alts, regexp.QuoteMeta(k))
		}
		sort.Slice(alts, func(i, j int) bool { return len(alts[i]) > len(alts[j]) })
		typeRenameRe = regexp.MustCompile(`(` + strings.Join(alts, "|") + `)\b`)
	}
	for round := 0; round < 3; round++ {
		changed := false
		for _, namesOnly := range []bool{false, true} {
			for k, pt := range pinnedIDs {
				if _, ok := current[k]; ok {
					continue
				}
				already := false
				for _, old := range typeCanon {
					if old == pt.Name {
						already = true
					}
				}
				if already {
					continue
				}
				var cands []*types.TypeName
				for ck, tn := range current {
					if ck.pkg != k.pkg {
						continue
					}
					if _, wasPinned := pinnedIDs[ck]; wasPinned {
						continue
					}
					if _, taken := typeCanon[tn]; taken {
						continue
					}
					if sameShape(pt, describeType(tn), namesOnly) {
						cands = append(cands, tn)
					}
				}
				if len(cands) > 1 {
					// several types of one shape were renamed at once: the one whose declared methods agree
					// best, if it is clearly ahead
					best, second := -1.0, -1.0
					var bestTn *types.TypeName
					for _, tn := range cands {
						j := jaccard(pt.Declared, describeType(tn).Declared)
						if j > best {
							second, best, bestTn = best, j, tn
						} else if j > second {
							second = j
						}
					}
					if bestTn != nil && best >= 0.5 && best-second >= 0.2 {
						cands = []*types.TypeName{bestTn}
					}
				}
				if len(cands) == 1 {
					typeCanon[cands[0]] = pt.Name
					typeRenames[k.pkg+"."+cands[0].Name()] = k.pkg + "." + pt.Name
					CanonicalNotes = append(CanonicalNotes, strings.TrimPrefix(k.pkg, ModulePath+"/internal/")+": type "+cands[0].Name()+" is the pinned "+pt.Name+" (same shape, old name gone)")
					rebuild()
					changed = true
				}
			}
		}
		if !changed {
			break
		}
	}
	// renamed fields of structs that are still (canonically) there
	for k, pt := range pinnedIDs {
		if pt.Kind != "struct" {
			continue
		}
		tn := current[k]
		if tn == nil {
			for cand, old := range typeCanon {
				if old == pt.Name && cand.Pkg().Path() == k.pkg {
					tn = cand
				}
			}
		}
		if tn == nil {
			continue
		}
		cur := describeType(tn)
		if cur.Kind != "struct" {
			continue
		}
		pinnedNames := map[string]bool{}
		for _, f := range pt.Fields {
			pinnedNames[f.Name] = true
		}
		curNames := map[string]bool{}
		for _, f := range cur.Fields {
			curNames[f.Name] = true
		}
		m := map[string]string{}
		for i, pf := range pt.Fields {
			if curNames[pf.Name] {
				continue
			}
			// the old name is gone: the field at the same position with the same type, or the only new field of that type
			if i < len(cur.Fields) && len(cur.Fields) == len(pt.Fields) && !pinnedNames[cur.Fields[i].Name] && cur.Fields[i].Type == pf.Type {
				m[cur.Fields[i].Name] = pf.Name
				continue
			}
			var cands []string
			for _, cf := range cur.Fields {
				if !pinnedNames[cf.Name] && cf.Type == pf.Type {
					cands = append(cands, cf.Name)
				}
			}
			gone := 0
			for _, pf2 := range pt.Fields {
				if !curNames[pf2.Name] && pf2.Type == pf.Type {
					gone++
				}
			}
			if len(cands) == 1 && gone == 1 {
				m[cands[0]] = pf.Name
			}
		}
		if len(m) > 0 {
			key := strings.TrimPrefix(k.pkg, ModulePath+"/internal/") + "." + pt.Name
			fieldCanon[key] = m
			for c, o := range m {
				CanonicalNotes = append(CanonicalNotes, key+": field "+c+" is the pinned "+o)
			}
		}
	}
	sort.Strings(CanonicalNotes)
}

// CanonFieldName maps a field name of the current tree to the pinned one (typeKey is the canonical TypeKey).
func CanonFieldName(typeKey, field string) string {
	if m, ok := fieldCanon[typeKey]; ok {
		if o, ok := m[field]; ok {
			return o
		}
	}
	return field
}

// CurrentFieldName is the inverse (pinned field name -> name in the current tree).
func CurrentFieldName(typeKey, pinned string) string {
	if m, ok := fieldCanon[typeKey]; ok {
		for c, o := range m {
			if o == pinned {
				return c
			}
		}
	}
	return pinned
}
