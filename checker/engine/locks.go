package engine

import (
	"fmt"
	"go/token"
	"sort"
	"strings"

	"golang.org/x/tools/go/ssa"
)

// ExprKey gives a structural, position-free name to an SSA value so that two
// evaluations of the same source expression (w.doneMutex, target.Label.String())
// compare equal inside one function.
func ExprKey(v ssa.Value) string { return exprKey(v, 0) }

func exprKey(v ssa.Value, d int) string {
	if v == nil || d > 10 {
		return "?"
	}
	switch x := v.(type) {
	case *ssa.Parameter:
		return "var:" + x.Name()
	case *ssa.FreeVar:
		return "var:" + x.Name()
	case *ssa.Alloc:
		if x.Comment != "" && x.Comment != "complit" && x.Comment != "varargs" && !strings.Contains(x.Comment, " ") {
			return "var:" + x.Comment
		}
		return "alloc:" + x.Name()
	case *ssa.Global:
		return "global:" + x.Name()
	case *ssa.Const:
		return "const:" + x.String()
	case *ssa.UnOp:
		if x.Op == token.MUL {
			// a load of a variable's cell denotes the variable
			switch x.X.(type) {
			case *ssa.Alloc, *ssa.FreeVar:
				return exprKey(x.X, d+1)
			}
			return "*" + exprKey(x.X, d+1)
		}
		return x.Op.String() + exprKey(x.X, d+1)
	case *ssa.FieldAddr:
		return exprKey(x.X, d+1) + "." + FieldKeyOf(x.X.Type(), x.Field).F
	case *ssa.Field:
		return exprKey(x.X, d+1) + "." + FieldKeyOf(x.X.Type(), x.Field).F
	case *ssa.Call:
		var args []string
		for _, a := range x.Call.Args {
			args = append(args, exprKey(a, d+1))
		}
		name := CalleeName(x)
		if x.Call.IsInvoke() {
			name = exprKey(x.Call.Value, d+1) + "." + x.Call.Method.Name()
		}
		return name + "(" + strings.Join(args, ",") + ")"
	case *ssa.MakeInterface:
		return exprKey(x.X, d+1)
	case *ssa.ChangeInterface:
		return exprKey(x.X, d+1)
	case *ssa.ChangeType:
		return exprKey(x.X, d+1)
	case *ssa.Convert:
		return exprKey(x.X, d+1)
	case *ssa.Extract:
		return fmt.Sprintf("%s#%d", exprKey(x.Tuple, d+1), x.Index)
	case *ssa.Lookup:
		return exprKey(x.X, d+1) + "[" + exprKey(x.Index, d+1) + "]"
	case *ssa.IndexAddr:
		return exprKey(x.X, d+1) + "[" + exprKey(x.Index, d+1) + "]"
	}
	return v.Name()
}

// LockOp classifies a call as acquiring or releasing a lock.
type LockOp struct {
	Key     string
	Acquire bool
	Read    bool // RLock/RUnlock
}

// ClassifyLock recognises sync.Mutex/RWMutex methods and the first-party
// keyed MutexMap (Lock(name)/Unlock(name)).
func ClassifyLock(c ssa.CallInstruction) (LockOp, bool) {
	name := CalleeName(c)
	args := c.Common().Args
	switch name {
	case "(*sync.Mutex).Lock", "(*sync.RWMutex).Lock":
		return LockOp{Key: ExprKey(args[0]), Acquire: true}, true
	case "(*sync.Mutex).Unlock", "(*sync.RWMutex).Unlock":
		return LockOp{Key: ExprKey(args[0])}, true
	case "(*sync.RWMutex).RLock":
		return LockOp{Key: ExprKey(args[0]), Acquire: true, Read: true}, true
	case "(*sync.RWMutex).RUnlock":
		return LockOp{Key: ExprKey(args[0]), Read: true}, true
	case "(*grog/internal/maps.MutexMap).Lock":
		return LockOp{Key: ExprKey(args[0]) + "[" + ExprKey(args[1]) + "]", Acquire: true}, true
	case "(*grog/internal/maps.MutexMap).Unlock":
		return LockOp{Key: ExprKey(args[0]) + "[" + ExprKey(args[1]) + "]"}, true
	}
	return LockOp{}, false
}

// LockSets holds, per instruction, the locks that are held on every path to it.
type LockSets struct {
	Fn     *ssa.Function
	before map[ssa.Instruction]map[string]bool
}

// ComputeLockSets runs the must-hold forward dataflow. entry: locks assumed
// held when the function is entered (from call-site summaries).
func ComputeLockSets(fn *ssa.Function, entry map[string]bool) *LockSets {
	ls := &LockSets{Fn: fn, before: map[ssa.Instruction]map[string]bool{}}
	if len(fn.Blocks) == 0 {
		return ls
	}
	in := map[*ssa.BasicBlock]map[string]bool{}
	out := map[*ssa.BasicBlock]map[string]bool{}
	transfer := func(b *ssa.BasicBlock, s map[string]bool, record bool) map[string]bool {
		cur := copySet(s)
		for _, instr := range b.Instrs {
			if record {
				ls.before[instr] = copySet(cur)
			}
			if call, ok := instr.(*ssa.Call); ok {
				if op, ok := ClassifyLock(call); ok {
					k := op.Key
					if op.Read {
						k = "r:" + k
					}
					if op.Acquire {
						cur[k] = true
					} else {
						delete(cur, k)
					}
				}
			}
		}
		return cur
	}
	// initialise: top = nil (unknown), entry block gets `entry`
	in[fn.Blocks[0]] = copySet(entry)
	changed := true
	for iter := 0; changed && iter < 50; iter++ {
		changed = false
		for _, b := range fn.Blocks {
			var s map[string]bool
			if b == fn.Blocks[0] {
				s = copySet(entry)
			} else {
				first := true
				for _, p := range b.Preds {
					po, ok := out[p]
					if !ok {
						continue // not yet computed: top
					}
					if first {
						s = copySet(po)
						first = false
					} else {
						s = intersect(s, po)
					}
				}
				if first {
					continue
				}
			}
			o := transfer(b, s, false)
			if !sameSet(in[b], s) || !sameSet(out[b], o) || out[b] == nil {
				in[b] = s
				out[b] = o
				changed = true
			}
		}
	}
	for _, b := range fn.Blocks {
		if s, ok := in[b]; ok {
			transfer(b, s, true)
		}
	}
	return ls
}

// Held reports the locks held just before the instruction.
func (ls *LockSets) Held(in ssa.Instruction) map[string]bool { return ls.before[in] }

// HeldList renders the held set.
func (ls *LockSets) HeldList(in ssa.Instruction) string {
	var ks []string
	for k := range ls.before[in] {
		ks = append(ks, k)
	}
	sort.Strings(ks)
	return "{" + strings.Join(ks, ", ") + "}"
}

func copySet(s map[string]bool) map[string]bool {
	o := map[string]bool{}
	for k := range s {
		o[k] = true
	}
	return o
}

func intersect(a, b map[string]bool) map[string]bool {
	o := map[string]bool{}
	for k := range a {
		if b[k] {
			o[k] = true
		}
	}
	return o
}

func sameSet(a, b map[string]bool) bool {
	if a == nil || b == nil {
		return a == nil && b == nil
	}
	if len(a) != len(b) {
		return false
	}
	for k := range a {
		if !b[k] {
			return false
		}
	}
	return true
}
