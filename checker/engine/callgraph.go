package engine

import (
	"sort"
	"strings"

	"golang.org/x/tools/go/ssa"
)

// CalleesOf returns every first-party function a call site may run, directly
// or by handing a function value to an external API.
func (g *VFG) CalleesOf(c ssa.CallInstruction) []*ssa.Function {
	out := append([]*ssa.Function{}, g.Callees[c]...)
	out = append(out, g.ViaExternal[c]...)
	return out
}

// SitesIn lists the call sites (call, go, defer) of fn itself.
func SitesIn(fn *ssa.Function) []ssa.CallInstruction {
	var out []ssa.CallInstruction
	for _, b := range fn.Blocks {
		for _, in := range b.Instrs {
			if c, ok := in.(ssa.CallInstruction); ok {
				out = append(out, c)
			}
		}
	}
	return out
}

// ReachableFuncs computes the first-party functions reachable from roots.
// stop(fn) == true prevents descending into fn (fn itself is still included).
func (g *VFG) ReachableFuncs(roots []*ssa.Function, stop func(*ssa.Function) bool) map[*ssa.Function]bool {
	seen := map[*ssa.Function]bool{}
	work := append([]*ssa.Function{}, roots...)
	for _, r := range roots {
		seen[r] = true
	}
	for len(work) > 0 {
		fn := work[len(work)-1]
		work = work[:len(work)-1]
		if stop != nil && stop(fn) {
			continue
		}
		for _, c := range SitesIn(fn) {
			for _, callee := range g.CalleesOf(c) {
				if !seen[callee] {
					seen[callee] = true
					work = append(work, callee)
				}
			}
		}
	}
	return seen
}

// CallersOf returns the call sites that may invoke fn (direct or via external hand-off).
func (g *VFG) CallersOf(fn *ssa.Function) []ssa.CallInstruction {
	out := append([]ssa.CallInstruction{}, g.Callers[fn]...)
	for c, fns := range g.ViaExternal {
		for _, f := range fns {
			if f == fn {
				out = append(out, c)
			}
		}
	}
	sort.Slice(out, func(i, j int) bool {
		a, b := g.P.FuncName(out[i].Parent()), g.P.FuncName(out[j].Parent())
		if a != b {
			return a < b
		}
		return out[i].Pos() < out[j].Pos()
	})
	return out
}

// CallerFuncs returns the distinct functions containing call sites of fn.
func (g *VFG) CallerFuncs(fn *ssa.Function) []*ssa.Function {
	seen := map[*ssa.Function]bool{}
	var out []*ssa.Function
	for _, c := range g.CallersOf(fn) {
		if !seen[c.Parent()] {
			seen[c.Parent()] = true
			out = append(out, c.Parent())
		}
	}
	return out
}

// CobraRunFuncs returns the functions stored into cobra.Command Run fields: the CLI entry points.
func (g *VFG) CobraRunFuncs() map[string]*ssa.Function {
	out := map[string]*ssa.Function{}
	for _, fld := range []string{"Run", "RunE", "PersistentPreRun", "PersistentPreRunE", "PreRun", "PreRunE"} {
		fk := FieldKey{"github.com/spf13/cobra.Command", fld}
		for _, e := range g.In[fk] {
			if v, ok := e.From.(ssa.Value); ok {
				for _, fn := range g.FuncValuesReaching(v) {
					fn = Unwrap(fn)
					if g.P.FuncSet[fn] {
						out[g.P.FuncName(fn)] = fn
					}
				}
			}
		}
	}
	return out
}

// CallsTo lists call sites (anywhere in first-party code) whose static callee
// or interface method has the given full name ("os.Rename", "(*os.File).Chmod").
func (g *VFG) CallsTo(names ...string) []ssa.CallInstruction {
	set := map[string]bool{}
	for _, n := range names {
		set[n] = true
	}
	var out []ssa.CallInstruction
	for _, c := range g.Sites {
		if set[CalleeName(c)] {
			out = append(out, c)
		}
	}
	return out
}

// CallsToFunc lists call sites that may invoke the first-party function fn.
func (g *VFG) CallsToFunc(fn *ssa.Function) []ssa.CallInstruction { return g.CallersOf(fn) }

// InPackage reports whether fn belongs to grog/internal/<rel> (or a sub-package).
func InPackage(fn *ssa.Function, rel string) bool {
	if fn == nil || fn.Pkg == nil {
		return false
	}
	p := fn.Pkg.Pkg.Path()
	full := ModulePath + "/internal/" + rel
	return p == full || strings.HasPrefix(p, full+"/")
}

// TopFunc returns the outermost declared function enclosing a literal.
func TopFunc(fn *ssa.Function) *ssa.Function {
	for fn.Parent() != nil {
		fn = fn.Parent()
	}
	return fn
}
