package engine

import (
	_ "embed"
	"encoding/json"
	"go/types"
	"sort"
	"strings"

	"golang.org/x/tools/go/ssa"
)

// Renamed functions. The rules name some functions of the analysed program (anchors, callee names in
// predicates, obligation keys). Renaming a function is the most common behaviour-preserving edit, so the
// names the rules use are the names of the pinned tree, and a function of the current tree that carries
// another name is recognised as "the pinned function X, renamed" when
//   - no function with X's (package, receiver, name) exists any more,
//   - exactly one function with the same package, receiver and parameter/result types exists whose own
//     (package, receiver, name) was not in the pinned tree.
// Everything that prints or compares a function name (FuncName, CalleeName, Program.Func) then uses X.
// An ambiguous or absent candidate leaves the anchor unresolved, which fails the check as before.

//go:embed pinned_funcs.json
var pinnedFuncsJSON []byte

type PinnedFunc struct {
	Pkg  string `json:"pkg"`
	Recv string `json:"recv"`
	Name string `json:"name"`
	Sig  string `json:"sig"`
	// Calls: the names called from the body (and its literals); tells apart functions of one signature
	Calls []string `json:"calls,omitempty"`
}

// canonical maps a renamed top-level function of the current program to its pinned name.
var canonical = map[*ssa.Function]string{}

// CanonicalNotes lists the renames that were recognised (for the evidence).
var CanonicalNotes []string

func recvString(fn *ssa.Function) string {
	r := fn.Signature.Recv()
	if r == nil {
		return ""
	}
	return canonTypeString(types.TypeString(r.Type(), nil))
}

func sigKey(fn *ssa.Function) string {
	var b strings.Builder
	sig := fn.Signature
	b.WriteString("(")
	for i := 0; i < sig.Params().Len(); i++ {
		if i > 0 {
			b.WriteString(",")
		}
		b.WriteString(canonTypeString(types.TypeString(sig.Params().At(i).Type(), nil)))
	}
	if sig.Variadic() {
		b.WriteString("...")
	}
	b.WriteString(")(")
	for i := 0; i < sig.Results().Len(); i++ {
		if i > 0 {
			b.WriteString(",")
		}
		b.WriteString(canonTypeString(types.TypeString(sig.Results().At(i).Type(), nil)))
	}
	b.WriteString(")")
	return b.String()
}

// TopLevelFuncs describes the declared functions and methods of the program (for pinning).
func (p *Program) TopLevelFuncs() []PinnedFunc {
	var out []PinnedFunc
	for _, fn := range p.Funcs {
		if fn.Parent() != nil || fn.Synthetic != "" || fn.Pkg == nil {
			continue
		}
		out = append(out, PinnedFunc{fn.Pkg.Pkg.Path(), recvString(fn), fn.Name(), sigKey(fn), callSet(fn)})
	}
	sort.Slice(out, func(i, j int) bool {
		a, b := out[i], out[j]
		if a.Pkg != b.Pkg {
			return a.Pkg < b.Pkg
		}
		if a.Recv != b.Recv {
			return a.Recv < b.Recv
		}
		return a.Name < b.Name
	})
	return out
}

func (p *Program) computeCanonical() {
	canonical = map[*ssa.Function]string{}
	var pinned []PinnedFunc
	if len(pinnedFuncsJSON) == 0 || json.Unmarshal(pinnedFuncsJSON, &pinned) != nil {
		return
	}
	type id struct{ pkg, recv, name string }
	pinnedIDs := map[id]PinnedFunc{}
	for _, pf := range pinned {
		pinnedIDs[id{pf.Pkg, pf.Recv, pf.Name}] = pf
	}
	current := map[id]*ssa.Function{}
	for _, fn := range p.Funcs {
		if fn.Parent() != nil || fn.Synthetic != "" || fn.Pkg == nil {
			continue
		}
		current[id{fn.Pkg.Pkg.Path(), recvString(fn), fn.Name()}] = fn
	}
	// candidates: current functions whose identity is new
	type slot struct{ pkg, recv, sig string }
	fresh := map[slot][]*ssa.Function{}
	for k, fn := range current {
		if _, ok := pinnedIDs[k]; !ok {
			s := slot{k.pkg, k.recv, sigKey(fn)}
			fresh[s] = append(fresh[s], fn)
		}
	}
	missing := map[slot][]PinnedFunc{}
	for k, pf := range pinnedIDs {
		if _, ok := current[k]; !ok {
			s := slot{pf.Pkg, pf.Recv, pf.Sig}
			missing[s] = append(missing[s], pf)
		}
	}
	note := func(s slot, fn *ssa.Function, pf PinnedFunc) {
		canonical[fn] = pf.Name
		CanonicalNotes = append(CanonicalNotes, strings.TrimPrefix(s.pkg, ModulePath+"/internal/")+": "+fn.Name()+" is the pinned "+pf.Name+" (same receiver and signature, old name gone)")
	}
	for s, pfs := range missing {
		if fr := fresh[s]; len(pfs) == 1 && len(fr) == 1 {
			note(s, fr[0], pfs[0])
		}
	}
	for s, pfs := range missing {
		fr := fresh[s]
		if len(pfs) == 1 && len(fr) == 1 {
			continue
		}
		if len(fr) == 0 {
			continue
		}
		// several functions of one signature were renamed at once: pair them by what their bodies call,
		// accepting a pairing only when it is clear (best match well ahead of the runner-up)
		used := map[*ssa.Function]bool{}
		for _, pf := range pfs {
			best, second := -1.0, -1.0
			var bestFn *ssa.Function
			for _, fn := range fr {
				if used[fn] {
					continue
				}
				j := jaccard(pf.Calls, callSet(fn))
				if j > best {
					second, best, bestFn = best, j, fn
				} else if j > second {
					second = j
				}
			}
			if bestFn != nil && best >= 0.5 && best-second >= 0.2 {
				used[bestFn] = true
				note(s, bestFn, pf)
			}
		}
	}
	sort.Strings(CanonicalNotes)
}

// canonString is fn.String() with the name of a renamed top-level function replaced by its pinned name.
func canonString(fn *ssa.Function) string {
	s := fn.String()
	if len(canonical) == 0 {
		return canonTypeString(s)
	}
	return canonTypeString(canonFuncString(fn, s))
}

func canonFuncString(fn *ssa.Function, s string) string {
	top := fn
	for top.Parent() != nil {
		top = top.Parent()
	}
	old, ok := canonical[top]
	if !ok {
		return s
	}
	cur := top.Name()
	ts := top.String()
	if !strings.HasPrefix(s, ts) || !strings.HasSuffix(ts, cur) {
		return s
	}
	return ts[:len(ts)-len(cur)] + old + s[len(ts):]
}

// CanonFuncString is the exported form (callee names).
func CanonFuncString(fn *ssa.Function) string { return canonString(fn) }

// pinnedLookup finds a renamed function by its pinned identity.
func (p *Program) pinnedLookup(pkgPath, recv, name string) *ssa.Function {
	for fn, old := range canonical {
		if old != name || fn.Pkg == nil || fn.Pkg.Pkg.Path() != pkgPath {
			continue
		}
		r := recvString(fn)
		r = strings.TrimPrefix(r, "*")
		if i := strings.LastIndex(r, "."); i >= 0 {
			r = r[i+1:]
		}
		if i := strings.Index(r, "["); i >= 0 {
			r = r[:i]
		}
		if r == recv {
			return fn
		}
	}
	return nil
}

// callSet: sorted names of what fn and its function literals call (package-qualified; renamed first-party
// callees simply do not match, which lowers the similarity a little).
func callSet(fn *ssa.Function) []string {
	set := map[string]bool{}
	var walk func(f *ssa.Function)
	walk = func(f *ssa.Function) {
		for _, b := range f.Blocks {
			for _, in := range b.Instrs {
				if c, ok := in.(ssa.CallInstruction); ok {
					cc := c.Common()
					switch {
					case cc.IsInvoke():
						set[cc.Method.FullName()] = true
					case cc.StaticCallee() != nil:
						set[canonString(Unwrap(cc.StaticCallee()))] = true
					}
				}
			}
		}
		for _, a := range f.AnonFuncs {
			walk(a)
		}
	}
	walk(fn)
	out := make([]string, 0, len(set))
	for k := range set {
		out = append(out, k)
	}
	sort.Strings(out)
	return out
}

func jaccard(a, b []string) float64 {
	if len(a) == 0 && len(b) == 0 {
		return 1
	}
	m := map[string]bool{}
	for _, x := range a {
		m[x] = true
	}
	inter := 0
	for _, x := range b {
		if m[x] {
			inter++
		}
	}
	union := len(a) + len(b) - inter
	if union == 0 {
		return 0
	}
	return float64(inter) / float64(union)
}
