package engine

import (
	"fmt"
	"go/types"
	"sort"
	"strings"

	"golang.org/x/tools/go/ssa"
)

// The value-flow graph (VFG) is a whole-program, flow-insensitive,
// field-based ("one abstract location per struct type and field") data-flow
// graph over the SSA form of the first-party code. An edge a -> b means "the
// value b may be computed from / contain the value a". It is the primitive
// behind every provenance rule (key coverage, key purity, context lineage,
// record coverage, digest/content pairing) and it also resolves function
// values to their call sites for the call graph.

// Node is an ssa.Value, a FieldKey or a RetKey.
type Node any

// FieldKey is the abstract location of field F of every value of struct type T.
type FieldKey struct{ T, F string }

func (f FieldKey) String() string { return f.T + "." + f.F }

// RetKey is the i-th result of a first-party function.
type RetKey struct {
	Fn *ssa.Function
	I  int
}

type EdgeKind uint8

const (
	EAssign    EdgeKind = iota // operand -> result of a pure SSA instruction
	EStore                     // value -> location
	ELoad                      // location -> value
	EField                     // base value -> field access result (deep taint)
	ECallArg                   // argument -> parameter (first-party callee)
	ECallRet                   // return operand -> call result
	EExtArg                    // argument -> result of an external call
	EExtWrite                  // argument -> reference-typed argument of an external call
	EAlias                     // back edge between aliases (param -> arg for reference types, freevar -> binding)
	EMapRange                  // map -> element obtained by ranging over it
	ESerialize                 // field of a message type -> bytes produced by serialising it
)

var kindNames = []string{"assign", "store", "load", "field", "arg", "ret", "ext", "extwrite", "alias", "maprange", "serialize"}

func (k EdgeKind) String() string { return kindNames[k] }

type Edge struct {
	From, To Node
	Kind     EdgeKind
	Via      ssa.Instruction // the instruction that induces the edge (call site for call edges)
}

type VFG struct {
	P   *Program
	Out map[Node][]*Edge
	In  map[Node][]*Edge
	// Callees: first-party functions (with bodies, origin-normalised) a call site may invoke.
	Callees map[ssa.CallInstruction][]*ssa.Function
	// Callers is the inverse of Callees.
	Callers map[*ssa.Function][]ssa.CallInstruction
	// Indirect callees: function values handed to an external call at this site
	// (sync.Once.Do, pond.SubmitErr, sort.Slice, cobra Run fields...).
	ViaExternal map[ssa.CallInstruction][]*ssa.Function
	edgeSet     map[edgeID]bool
	Sites       []ssa.CallInstruction
	NumEdges    int
}

type edgeID struct {
	from, to Node
	kind     EdgeKind
	via      ssa.Instruction
}

func (g *VFG) add(from, to Node, kind EdgeKind, via ssa.Instruction) bool {
	if from == nil || to == nil || from == to {
		return false
	}
	id := edgeID{from, to, kind, via}
	if g.edgeSet[id] {
		return false
	}
	g.edgeSet[id] = true
	e := &Edge{from, to, kind, via}
	g.Out[from] = append(g.Out[from], e)
	g.In[to] = append(g.In[to], e)
	g.NumEdges++
	return true
}

// FieldKeyOf returns the abstract location addressed by a FieldAddr/Field.
func FieldKeyOf(structOrPtr types.Type, idx int) FieldKey {
	t := Deref(structOrPtr)
	st, ok := t.Underlying().(*types.Struct)
	if !ok || idx >= st.NumFields() {
		return FieldKey{TypeKey(structOrPtr), fmt.Sprintf("#%d", idx)}
	}
	tk := TypeKey(structOrPtr)
	return FieldKey{tk, CanonFieldName(tk, st.Field(idx).Name())}
}

// Unwrap looks through synthetic wrappers, thunks, bound-method closures and
// generic instantiations to the declared function.
func Unwrap(fn *ssa.Function) *ssa.Function {
	for i := 0; i < 4 && fn != nil; i++ {
		if o := fn.Origin(); o != nil && o != fn {
			fn = o
			continue
		}
		if fn.Synthetic == "" || strings.HasPrefix(fn.Synthetic, "package initializer") {
			return fn
		}
		var next *ssa.Function
		for _, b := range fn.Blocks {
			for _, in := range b.Instrs {
				if c, ok := in.(ssa.CallInstruction); ok {
					if sc := c.Common().StaticCallee(); sc != nil {
						next = sc
					}
				}
			}
		}
		if next == nil {
			return fn
		}
		fn = next
	}
	return fn
}

func isRefType(t types.Type) bool {
	switch t.Underlying().(type) {
	case *types.Pointer, *types.Slice, *types.Map, *types.Chan, *types.Interface, *types.Signature:
		return true
	}
	return false
}

// aliasRoots walks back through same-backing-store instructions.
func aliasRoots(v ssa.Value) []ssa.Value {
	seen := map[ssa.Value]bool{}
	var out []ssa.Value
	var walk func(v ssa.Value, d int)
	walk = func(v ssa.Value, d int) {
		if v == nil || seen[v] || d > 8 {
			return
		}
		seen[v] = true
		out = append(out, v)
		switch x := v.(type) {
		case *ssa.Slice:
			walk(x.X, d+1)
		case *ssa.Phi:
			for _, e := range x.Edges {
				walk(e, d+1)
			}
		case *ssa.ChangeType:
			walk(x.X, d+1)
		case *ssa.Convert:
			walk(x.X, d+1)
		case *ssa.MakeInterface:
			walk(x.X, d+1)
		case *ssa.ChangeInterface:
			walk(x.X, d+1)
		case *ssa.TypeAssert:
			walk(x.X, d+1)
		case *ssa.Call:
			if b, ok := x.Call.Value.(*ssa.Builtin); ok && b.Name() == "append" && len(x.Call.Args) > 0 {
				walk(x.Call.Args[0], d+1)
			}
		}
	}
	walk(v, 0)
	return out
}

// BuildVFG constructs the value-flow graph and resolves callees.
func BuildVFG(p *Program) *VFG {
	g := &VFG{
		P: p, Out: map[Node][]*Edge{}, In: map[Node][]*Edge{},
		Callees: map[ssa.CallInstruction][]*ssa.Function{}, Callers: map[*ssa.Function][]ssa.CallInstruction{},
		ViaExternal: map[ssa.CallInstruction][]*ssa.Function{}, edgeSet: map[edgeID]bool{},
	}
	for _, fn := range p.Funcs {
		for _, b := range fn.Blocks {
			for _, in := range b.Instrs {
				g.instr(fn, in)
				if c, ok := in.(ssa.CallInstruction); ok {
					g.Sites = append(g.Sites, c)
				}
			}
		}
	}
	// callee resolution to a fixed point (dynamic calls need the graph itself)
	bound := map[struct {
		c  ssa.CallInstruction
		fn *ssa.Function
	}]bool{}
	extBound := map[struct {
		c  ssa.CallInstruction
		fn *ssa.Function
	}]bool{}
	for round := 0; round < 8; round++ {
		changed := false
		for _, c := range g.Sites {
			for _, fn := range g.resolve(c) {
				k := struct {
					c  ssa.CallInstruction
					fn *ssa.Function
				}{c, fn}
				if bound[k] {
					continue
				}
				bound[k] = true
				changed = true
				g.Callees[c] = append(g.Callees[c], fn)
				g.Callers[fn] = append(g.Callers[fn], c)
				g.bindCall(c, fn)
			}
			if g.isExternal(c) {
				for _, fn := range g.funcArgs(c) {
					k := struct {
						c  ssa.CallInstruction
						fn *ssa.Function
					}{c, fn}
					if extBound[k] {
						continue
					}
					extBound[k] = true
					changed = true
					g.ViaExternal[c] = append(g.ViaExternal[c], fn)
					g.bindExternalCallback(c, fn)
				}
			}
		}
		if !changed {
			break
		}
	}
	g.FinishExternal()
	g.paramOut()
	return g
}

// paramOut: a write through a reference-typed parameter (io.Copy(w, f) with w a parameter, a store
// into a slice parameter's backing array) is observed by the caller through the argument it passed:
// parameter -> write targets of the argument at every call site. Two rounds cover helpers of helpers.
func (g *VFG) paramOut() {
	for round := 0; round < 2; round++ {
		for _, c := range g.Sites {
			args := c.Common().Args
			for _, fn := range g.Callees[c] {
				off := 0
				if c.Common().IsInvoke() {
					off = 1
				}
				for i, a := range args {
					pi := i + off
					if pi >= len(fn.Params) || !isRefType(a.Type()) {
						continue
					}
					prm := fn.Params[pi]
					// only writer-like parameters (interfaces such as io.Writer / hash.Hash): data handed
					// to them is observed by whoever supplied the writer
					if _, isIface := prm.Type().Underlying().(*types.Interface); !isIface {
						continue
					}
					written := false
					for _, e := range g.In[Node(prm)] {
						if e.Kind == EExtWrite || e.Kind == EStore {
							written = true
						}
					}
					if !written {
						continue
					}
					for _, t := range g.writeTargets(a) {
						g.add(prm, t, EExtWrite, c)
					}
				}
			}
		}
	}
}

// isExternal: the call leaves first-party code (static external callee, or an
// interface method without first-party implementers).
func (g *VFG) isExternal(c ssa.CallInstruction) bool {
	cc := c.Common()
	if cc.IsInvoke() {
		return len(g.Callees[c]) == 0
	}
	sc := cc.StaticCallee()
	if sc == nil {
		return false
	}
	return !g.P.FuncSet[Unwrap(sc)]
}

// instr adds the intraprocedural edges of one instruction.
func (g *VFG) instr(fn *ssa.Function, in ssa.Instruction) {
	switch x := in.(type) {
	case *ssa.Store:
		g.store(x.Addr, x.Val, x)
	case *ssa.UnOp:
		if x.Op.String() == "*" {
			g.add(x.X, x, ELoad, x)
		} else {
			g.add(x.X, x, EAssign, x) // incl. channel receive
		}
	case *ssa.FieldAddr:
		g.add(FieldKeyOf(x.X.Type(), x.Field), x, ELoad, x)
		g.add(x.X, x, EField, x)
	case *ssa.Field:
		g.add(FieldKeyOf(x.X.Type(), x.Field), x, ELoad, x)
		g.add(x.X, x, EField, x)
	case *ssa.IndexAddr:
		g.add(x.X, x, EAssign, x)
	case *ssa.Index:
		g.add(x.X, x, EAssign, x)
	case *ssa.Lookup:
		g.add(x.X, x, EAssign, x)
	case *ssa.Phi:
		for _, e := range x.Edges {
			g.add(e, x, EAssign, x)
		}
	case *ssa.BinOp:
		switch x.Op.String() {
		case "+", "-", "*", "/", "%", "&", "|", "^", "<<", ">>", "&^":
			g.add(x.X, x, EAssign, x)
			g.add(x.Y, x, EAssign, x)
		}
	case *ssa.Convert:
		g.add(x.X, x, EAssign, x)
	case *ssa.ChangeType:
		g.add(x.X, x, EAssign, x)
	case *ssa.ChangeInterface:
		g.add(x.X, x, EAssign, x)
	case *ssa.MakeInterface:
		g.add(x.X, x, EAssign, x)
	case *ssa.SliceToArrayPointer:
		g.add(x.X, x, EAssign, x)
	case *ssa.MultiConvert:
		g.add(x.X, x, EAssign, x)
	case *ssa.TypeAssert:
		g.add(x.X, x, EAssign, x)
	case *ssa.Slice:
		g.add(x.X, x, EAssign, x)
	case *ssa.Extract:
		if c, ok := x.Tuple.(*ssa.Call); ok {
			_ = c // first-party results are wired per index in bindCall; external ones below
		}
		g.add(x.Tuple, x, EAssign, x)
	case *ssa.Range:
		g.add(x.X, x, EAssign, x)
	case *ssa.Next:
		kind := EAssign
		if r, ok := x.Iter.(*ssa.Range); ok {
			if _, isMap := r.X.Type().Underlying().(*types.Map); isMap {
				kind = EMapRange
			}
		}
		g.add(x.Iter, x, kind, x)
	case *ssa.MapUpdate:
		g.add(x.Key, x.Map, EStore, x)
		g.add(x.Value, x.Map, EStore, x)
		for _, r := range aliasRoots(x.Map) {
			g.add(x.Key, r, EStore, x)
			g.add(x.Value, r, EStore, x)
		}
	case *ssa.Send:
		g.add(x.X, x.Chan, EStore, x)
	case *ssa.Select:
		for _, st := range x.States {
			if st.Send != nil {
				g.add(st.Send, st.Chan, EStore, x)
			} else {
				g.add(st.Chan, x, EAssign, x)
			}
		}
	case *ssa.MakeClosure:
		cl := x.Fn.(*ssa.Function)
		for i, b := range x.Bindings {
			if i < len(cl.FreeVars) {
				g.add(b, cl.FreeVars[i], EAssign, x)
				g.add(cl.FreeVars[i], b, EAlias, x)
			}
		}
	case *ssa.Return:
		for i, r := range x.Results {
			g.add(r, RetKey{fn, i}, ECallRet, x)
		}
	}
}

func (g *VFG) store(addr, val ssa.Value, via ssa.Instruction) {
	g.add(val, addr, EStore, via)
	switch a := addr.(type) {
	case *ssa.FieldAddr:
		g.add(val, FieldKeyOf(a.X.Type(), a.Field), EStore, via)
	case *ssa.IndexAddr:
		for _, r := range aliasRoots(a.X) {
			g.add(val, r, EStore, via)
		}
	}
}

// CalleeName names the static callee or interface method of a call:
// "os.Rename", "(*os.File).Close", "(io.Writer).Write". Empty for dynamic calls.
func CalleeName(c ssa.CallInstruction) string {
	cc := c.Common()
	if cc.IsInvoke() {
		return canonTypeString(cc.Method.FullName())
	}
	if sc := cc.StaticCallee(); sc != nil {
		u := Unwrap(sc)
		if len(canonical) > 0 {
			top := u
			for top.Parent() != nil {
				top = top.Parent()
			}
			if _, renamed := canonical[top]; renamed {
				return canonString(u)
			}
		}
		if u.Object() != nil {
			if f, ok := u.Object().(*types.Func); ok {
				return canonTypeString(f.FullName())
			}
		}
		return canonTypeString(u.String())
	}
	if b, ok := cc.Value.(*ssa.Builtin); ok {
		return "builtin." + b.Name()
	}
	return ""
}

// resolve computes the first-party callees of a call site on the current graph.
func (g *VFG) resolve(c ssa.CallInstruction) []*ssa.Function {
	cc := c.Common()
	var out []*ssa.Function
	addFn := func(fn *ssa.Function) {
		fn = Unwrap(fn)
		if fn != nil && g.P.FuncSet[fn] {
			for _, o := range out {
				if o == fn {
					return
				}
			}
			out = append(out, fn)
		}
	}
	if cc.IsInvoke() {
		iface, ok := cc.Value.Type().Underlying().(*types.Interface)
		if !ok {
			return nil
		}
		for _, t := range g.P.Implementers(iface) {
			ms := g.P.SSA.MethodSets.MethodSet(t)
			sel := ms.Lookup(cc.Method.Pkg(), cc.Method.Name())
			if sel == nil {
				continue
			}
			if fn := g.P.SSA.MethodValue(sel); fn != nil {
				addFn(fn)
			}
		}
		return out
	}
	if sc := cc.StaticCallee(); sc != nil {
		addFn(sc)
		return out
	}
	if _, ok := cc.Value.(*ssa.Builtin); ok {
		return nil
	}
	// dynamic call: function values that flow into the callee operand
	for _, fn := range g.FuncValuesReaching(cc.Value) {
		addFn(fn)
	}
	return out
}

// FuncValuesReaching returns the functions whose value may flow into v.
func (g *VFG) FuncValuesReaching(v ssa.Value) []*ssa.Function {
	var out []*ssa.Function
	seen := map[Node]bool{v: true}
	work := []Node{v}
	for len(work) > 0 {
		n := work[len(work)-1]
		work = work[:len(work)-1]
		switch x := n.(type) {
		case *ssa.Function:
			out = append(out, x)
			continue
		case *ssa.MakeClosure:
			out = append(out, x.Fn.(*ssa.Function))
			continue
		}
		for _, e := range g.In[n] {
			if e.Kind == EField || e.Kind == EExtArg || e.Kind == EExtWrite {
				// a function value is not obtained from its container's base pointer
				// nor manufactured by an external call from its arguments
				continue
			}
			if !seen[e.From] {
				seen[e.From] = true
				work = append(work, e.From)
			}
		}
	}
	return out
}

// funcArgs returns first-party function values passed as arguments of a call.
func (g *VFG) funcArgs(c ssa.CallInstruction) []*ssa.Function {
	var out []*ssa.Function
	for _, a := range c.Common().Args {
		if _, ok := a.Type().Underlying().(*types.Signature); !ok {
			continue
		}
		for _, fn := range g.FuncValuesReaching(a) {
			fn = Unwrap(fn)
			if g.P.FuncSet[fn] {
				out = append(out, fn)
			}
		}
	}
	return out
}

// bindCall wires arguments to parameters and results back to the call.
func (g *VFG) bindCall(c ssa.CallInstruction, fn *ssa.Function) {
	cc := c.Common()
	args := cc.Args
	if cc.IsInvoke() {
		args = append([]ssa.Value{cc.Value}, args...)
	}
	// closures called through a bound-method value carry the receiver as a binding; skip arity mismatches
	if len(args) == len(fn.Params) {
		for i, a := range args {
			g.add(a, fn.Params[i], ECallArg, c)
			if isRefType(a.Type()) {
				g.add(fn.Params[i], a, EAlias, c)
			}
		}
	} else if len(args)+1 == len(fn.Params) {
		for i, a := range args {
			g.add(a, fn.Params[i+1], ECallArg, c)
			if isRefType(a.Type()) {
				g.add(fn.Params[i+1], a, EAlias, c)
			}
		}
	}
	v := c.Value()
	if v == nil {
		return
	}
	nres := fn.Signature.Results().Len()
	if nres == 1 {
		g.add(RetKey{fn, 0}, v, ECallRet, c)
		return
	}
	for _, r := range *v.Referrers() {
		if ex, ok := r.(*ssa.Extract); ok && ex.Index < nres {
			g.add(RetKey{fn, ex.Index}, ex, ECallRet, c)
		}
	}
}

// bindExternalCallback: an external call received a first-party function
// value; it may call it with anything derived from its other arguments and
// its own result may derive from what the callback returns.
func (g *VFG) bindExternalCallback(c ssa.CallInstruction, fn *ssa.Function) {
	cc := c.Common()
	for _, a := range cc.Args {
		if _, isFn := a.Type().Underlying().(*types.Signature); isFn {
			continue
		}
		for _, prm := range fn.Params {
			g.add(a, prm, EExtArg, c)
		}
	}
	if v := c.Value(); v != nil {
		for i := 0; i < fn.Signature.Results().Len(); i++ {
			g.add(RetKey{fn, i}, v, EExtArg, c)
		}
	}
}

// external wires an external (or unresolved) call: args -> result, args -> ref args.
func (g *VFG) external(c ssa.CallInstruction) {
	cc := c.Common()
	args := cc.Args
	if cc.IsInvoke() {
		args = append([]ssa.Value{cc.Value}, args...)
	}
	if b, ok := cc.Value.(*ssa.Builtin); ok {
		switch b.Name() {
		case "append":
			if v := c.Value(); v != nil {
				for _, a := range args {
					g.add(a, v, EAssign, c)
				}
			}
		case "copy":
			if len(args) == 2 {
				g.add(args[1], args[0], EStore, c)
				for _, r := range aliasRoots(args[0]) {
					g.add(args[1], r, EStore, c)
				}
			}
		case "min", "max":
			if v := c.Value(); v != nil {
				for _, a := range args {
					g.add(a, v, EAssign, c)
				}
			}
		}
		return
	}
	if v := c.Value(); v != nil {
		for _, a := range args {
			g.add(a, v, EExtArg, c)
		}
	}
	for i, a := range args {
		if !isRefType(a.Type()) {
			continue
		}
		for j, b := range args {
			if i != j {
				for _, t := range g.writeTargets(a) {
					g.add(b, t, EExtWrite, c)
				}
			}
		}
	}
}

// writeTargets: the nodes that observe a write through reference value a —
// a itself, its alias roots, and the locations those were loaded from.
func (g *VFG) writeTargets(a ssa.Value) []Node {
	var out []Node
	for _, r := range aliasRoots(a) {
		out = append(out, r)
		if ld, ok := r.(*ssa.UnOp); ok && ld.Op.String() == "*" {
			out = append(out, ld.X)
			if fa, ok := ld.X.(*ssa.FieldAddr); ok {
				out = append(out, FieldKeyOf(fa.X.Type(), fa.Field))
			}
		}
		if f, ok := r.(*ssa.Field); ok {
			out = append(out, FieldKeyOf(f.X.Type(), f.Field))
		}
	}
	return out
}

// invokeEffects: an interface method call may store its arguments in the
// receiver and derive its result from the receiver, whatever the implementation.
func (g *VFG) invokeEffects(c ssa.CallInstruction) {
	cc := c.Common()
	if !cc.IsInvoke() {
		return
	}
	for _, a := range cc.Args {
		for _, t := range g.writeTargets(cc.Value) {
			g.add(a, t, EExtWrite, c)
		}
	}
	if v := c.Value(); v != nil {
		g.add(cc.Value, v, EExtArg, c)
	}
}

// FinishExternal must run after callee resolution: every call site without a
// first-party callee is wired as external; serialisation calls get field edges.
func (g *VFG) FinishExternal() {
	for _, c := range g.Sites {
		if len(g.Callees[c]) == 0 {
			g.external(c)
			g.serialize(c)
		} else {
			g.invokeEffects(c)
		}
	}
}

// serialize: the bytes produced by proto/json/yaml marshalling derive from
// every field of the message type's transitive closure.
func (g *VFG) serialize(c ssa.CallInstruction) {
	name := CalleeName(c)
	if !(strings.HasSuffix(name, ".Marshal") || strings.HasSuffix(name, ".MarshalAppend") || strings.HasSuffix(name, ".MarshalIndent")) {
		return
	}
	v := c.Value()
	if v == nil {
		return
	}
	for _, a := range c.Common().Args {
		t := a.Type()
		if mi, ok := a.(*ssa.MakeInterface); ok {
			t = mi.X.Type()
		}
		for _, fk := range g.P.FieldClosure(t) {
			g.add(fk, v, ESerialize, c)
		}
	}
}

// FieldClosure lists the abstract fields reachable from a first-party type.
func (p *Program) FieldClosure(t types.Type) []FieldKey {
	seen := map[string]bool{}
	var out []FieldKey
	var walk func(t types.Type)
	walk = func(t types.Type) {
		t = types.Unalias(t)
		switch u := t.(type) {
		case *types.Pointer:
			walk(u.Elem())
			return
		case *types.Slice:
			walk(u.Elem())
			return
		case *types.Array:
			walk(u.Elem())
			return
		case *types.Map:
			walk(u.Key())
			walk(u.Elem())
			return
		}
		n, ok := t.(*types.Named)
		if !ok {
			return
		}
		if n.Obj().Pkg() == nil || !IsFirstParty(n.Obj().Pkg().Path()) {
			return
		}
		key := TypeKey(n)
		if seen[key] {
			return
		}
		seen[key] = true
		switch u := n.Underlying().(type) {
		case *types.Struct:
			for i := 0; i < u.NumFields(); i++ {
				f := u.Field(i)
				if !f.Exported() {
					continue // protobuf bookkeeping (state, sizeCache, unknownFields)
				}
				out = append(out, FieldKey{key, f.Name()})
				walk(f.Type())
			}
		case *types.Interface:
			for _, impl := range p.Implementers(u) {
				walk(impl)
			}
		}
	}
	walk(t)
	return out
}

// ---------------------------------------------------------------------------
// Queries

// EdgeFilter decides whether a traversal may follow an edge.
type EdgeFilter func(e *Edge) bool

// Reach is the result of a traversal: visited nodes with the edge that reached them.
type Reach struct {
	Parent map[Node]*Edge
	fwd    bool
}

func (r *Reach) Has(n Node) bool { _, ok := r.Parent[n]; return ok }

// Forward computes the nodes reachable from srcs.
func (g *VFG) Forward(srcs []Node, filter EdgeFilter) *Reach {
	r := &Reach{Parent: map[Node]*Edge{}, fwd: true}
	var work []Node
	for _, s := range srcs {
		if _, ok := r.Parent[s]; !ok {
			r.Parent[s] = nil
			work = append(work, s)
		}
	}
	for len(work) > 0 {
		n := work[0]
		work = work[1:]
		for _, e := range g.Out[n] {
			if filter != nil && !filter(e) {
				continue
			}
			if _, ok := r.Parent[e.To]; !ok {
				r.Parent[e.To] = e
				work = append(work, e.To)
			}
		}
	}
	return r
}

// Backward computes the nodes from which sinks are reachable.
func (g *VFG) Backward(sinks []Node, filter EdgeFilter) *Reach {
	r := &Reach{Parent: map[Node]*Edge{}}
	var work []Node
	for _, s := range sinks {
		if _, ok := r.Parent[s]; !ok {
			r.Parent[s] = nil
			work = append(work, s)
		}
	}
	for len(work) > 0 {
		n := work[0]
		work = work[1:]
		for _, e := range g.In[n] {
			if filter != nil && !filter(e) {
				continue
			}
			if _, ok := r.Parent[e.From]; !ok {
				r.Parent[e.From] = e
				work = append(work, e.From)
			}
		}
	}
	return r
}

// Path renders the chain of edges that reached n (for diagnostics).
func (g *VFG) Path(r *Reach, n Node, max int) []string {
	var out []string
	for i := 0; i < 200; i++ {
		e := r.Parent[n]
		if e == nil {
			break
		}
		out = append(out, fmt.Sprintf("%s -[%s @%s]-> %s", g.NodeString(e.From), e.Kind, g.P.InstrPos(e.Via), g.NodeString(e.To)))
		if r.fwd {
			n = e.From
		} else {
			n = e.To
		}
	}
	if r.fwd {
		for i, j := 0, len(out)-1; i < j; i, j = i+1, j-1 {
			out[i], out[j] = out[j], out[i]
		}
	}
	if max > 0 && len(out) > max {
		half := max / 2
		out = append(append(append([]string{}, out[:half]...), fmt.Sprintf("… %d edges …", len(out)-max)), out[len(out)-half:]...)
	}
	return out
}

func (g *VFG) NodeString(n Node) string {
	switch x := n.(type) {
	case FieldKey:
		return "field " + x.String()
	case RetKey:
		return fmt.Sprintf("result#%d of %s", x.I, g.P.FuncName(x.Fn))
	case *ssa.Function:
		return "func " + g.P.FuncName(x)
	case *ssa.Parameter:
		return fmt.Sprintf("param %s of %s", x.Name(), g.P.FuncName(x.Parent()))
	case *ssa.FreeVar:
		return fmt.Sprintf("freevar %s of %s", x.Name(), g.P.FuncName(x.Parent()))
	case *ssa.Global:
		return "global " + x.Name()
	case *ssa.Const:
		return "const " + x.String()
	case ssa.Value:
		fn := ""
		if x.Parent() != nil {
			fn = g.P.FuncName(x.Parent())
		}
		s := x.String()
		if len(s) > 70 {
			s = s[:70] + "…"
		}
		return fmt.Sprintf("%s = %s in %s", x.Name(), s, fn)
	}
	return fmt.Sprint(n)
}

// FieldSources lists the abstract fields in a backward reach, sorted.
func FieldSources(r *Reach) []FieldKey {
	var out []FieldKey
	for n := range r.Parent {
		if fk, ok := n.(FieldKey); ok {
			out = append(out, fk)
		}
	}
	sort.Slice(out, func(i, j int) bool { return out[i].String() < out[j].String() })
	return out
}
