package engine

import (
	"go/constant"
	"go/token"
	"go/types"

	"golang.org/x/tools/go/ssa"
)

// ---------------------------------------------------------------------------
// Instruction-granular path search (the must-pass-through primitive, P1).

// PathQuery describes a reachability question inside one function.
type PathQuery struct {
	// CutEdge: the CFG edge from block b to its i-th successor may not be taken.
	CutEdge func(b *ssa.BasicBlock, succ int) bool
	// CutInstr: a path is stopped when it reaches this instruction (it is not "passed").
	CutInstr func(in ssa.Instruction) bool
	// FromBlock: with from == nil, start at the first instruction of this block instead of the entry.
	FromBlock *ssa.BasicBlock
	// Shallow: do not use callee summaries (cuts are looked for in this function only).
	Shallow bool
	// DeepTo: the target predicate may also be satisfied inside a statically resolved first-party callee.
	DeepTo bool
}

// PathExists reports whether `to` is reachable from just after `from`
// (from == nil: from function entry) without crossing a cut.
//
// The search is summary-aware for statically resolved first-party callees (bounded depth):
//   - a call whose callee has no uncut path from its entry to a return is itself a cut
//     (the callee always passes a CutInstr / only returns over CutEdge edges, or never returns);
//   - a branch on the boolean result of such a callee is cut when every path in the callee
//     that can return that boolean value crosses a cut edge ("helper returns true => fact");
//   - with DeepTo, the target may also lie inside such a callee.
func PathExists(fn *ssa.Function, from ssa.Instruction, to func(ssa.Instruction) bool, q PathQuery) (bool, ssa.Instruction) {
	s := &pathSearch{q: q, passable: map[*ssa.Call]int{}, mayRet: map[retKey]int{}}
	saved := activeCtx
	activeCtx = nil
	defer func() { activeCtx = saved }()
	return s.search(fn, from, to, 0)
}

const maxSummaryDepth = 4

type retKey struct {
	call  *ssa.Call
	idx   int
	truth bool
}

type pathSearch struct {
	q        PathQuery
	passable map[*ssa.Call]int // 0 unknown, 1 yes, 2 no, 3 in progress (per call site: facts are read in the caller's terms)
	mayRet   map[retKey]int
}

// activeCtx is the stack of call sites through which the current path search has descended.
// Origins (and the rules' sameVar) resolve a callee parameter to the argument at that site, and
// a read of a parameter's field the callee never writes to the caller's dominating store, so a
// predicate written for the caller's values recognises the same fact inside an extracted helper.
// Analyses run sequentially; a nested top-level search saves and restores the stack.
var activeCtx []*ssa.Call

// CtxArg resolves a parameter of a function the active search descended into to the argument
// passed at the call site (nil when v is not such a parameter).
func CtxArg(v ssa.Value) ssa.Value {
	p, ok := v.(*ssa.Parameter)
	if !ok {
		return nil
	}
	for i := len(activeCtx) - 1; i >= 0; i-- {
		c := activeCtx[i]
		if c.Call.StaticCallee() != p.Parent() {
			continue
		}
		for k, fp := range p.Parent().Params {
			if fp == p && k < len(c.Call.Args) {
				return c.Call.Args[k]
			}
		}
	}
	return nil
}

// ctxCallFor returns the active call site whose callee is fn.
func ctxCallFor(fn *ssa.Function) *ssa.Call {
	for i := len(activeCtx) - 1; i >= 0; i-- {
		if activeCtx[i].Call.StaticCallee() == fn {
			return activeCtx[i]
		}
	}
	return nil
}

// ResolveCtx follows parameters through the active call context to caller values.
func ResolveCtx(v ssa.Value) ssa.Value {
	for i := 0; i < 8; i++ {
		a := CtxArg(v)
		if a == nil {
			return v
		}
		v = a
	}
	return v
}

// staticFirstParty returns the statically resolved callee of a plain call when its body is loaded.
func staticFirstParty(in ssa.Instruction) *ssa.Function {
	c, ok := in.(*ssa.Call)
	if !ok {
		return nil
	}
	h := c.Call.StaticCallee()
	if h == nil || len(h.Blocks) == 0 {
		return nil
	}
	return h
}

func isReturn(in ssa.Instruction) bool { _, ok := in.(*ssa.Return); return ok }

// calleePassable: some uncut path leads from the callee's entry to one of its returns.
func (s *pathSearch) calleePassable(call *ssa.Call, h *ssa.Function, depth int) bool {
	if s.q.CutInstr == nil && s.q.CutEdge == nil {
		return true
	}
	switch s.passable[call] {
	case 1, 3:
		return true
	case 2:
		return false
	}
	if depth >= maxSummaryDepth {
		return true
	}
	s.passable[call] = 3
	activeCtx = append(activeCtx, call)
	ok, _ := s.search(h, nil, isReturn, depth+1)
	activeCtx = activeCtx[:len(activeCtx)-1]
	if ok {
		s.passable[call] = 1
	} else {
		s.passable[call] = 2
	}
	return ok
}

// cutEdge: the edge is cut by the query, or its condition is the boolean result of a
// first-party helper that cannot return that value without crossing a cut.
func (s *pathSearch) cutEdge(b *ssa.BasicBlock, i int, depth int) bool {
	if s.q.CutEdge == nil {
		return false
	}
	if s.q.CutEdge(b, i) {
		return true
	}
	if len(b.Instrs) == 0 || len(b.Succs) != 2 {
		return false
	}
	ifi, ok := b.Instrs[len(b.Instrs)-1].(*ssa.If)
	if !ok {
		return false
	}
	cond, truth := ifi.Cond, i == 0
	for {
		u, ok := cond.(*ssa.UnOp)
		if !ok || u.Op != token.NOT {
			break
		}
		cond, truth = u.X, !truth
	}
	// the boolean may be one component of a tuple result: `v, ok := helper()`
	ridx := 0
	callV := cond
	if ex, ok := cond.(*ssa.Extract); ok {
		callV, ridx = ex.Tuple, ex.Index
	}
	h := staticFirstParty(asInstr(callV))
	if h == nil || depth >= maxSummaryDepth {
		return false
	}
	res := h.Signature.Results()
	if ridx >= res.Len() || (res.Len() != 1 && callV == cond) {
		return false
	}
	if bt, ok := res.At(ridx).Type().Underlying().(*types.Basic); !ok || bt.Kind() != types.Bool {
		return false
	}
	call := callV.(*ssa.Call)
	activeCtx = append(activeCtx, call)
	may := s.mayReturn(call, h, ridx, truth, depth+1)
	activeCtx = activeCtx[:len(activeCtx)-1]
	return !may
}

func asInstr(v ssa.Value) ssa.Instruction {
	in, _ := v.(ssa.Instruction)
	return in
}

// mayReturn: the helper has an uncut path to a return that can yield `truth`.
func (s *pathSearch) mayReturn(call *ssa.Call, h *ssa.Function, ridx int, truth bool, depth int) bool {
	k := retKey{call, ridx, truth}
	switch s.mayRet[k] {
	case 1, 3:
		return true
	case 2:
		return false
	}
	s.mayRet[k] = 3
	res := false
	fakeCut := func(v ssa.Value) bool {
		fake := &ssa.BasicBlock{Instrs: []ssa.Instruction{&ssa.If{Cond: v}}, Succs: []*ssa.BasicBlock{{}, {}}}
		slot := 0
		if !truth {
			slot = 1
		}
		return s.cutEdge(fake, slot, depth)
	}
	for _, r := range Returns(h) {
		if ridx >= len(r.Results) {
			res = true
			break
		}
		v := r.Results[ridx]
		if bv, isConst := BoolConst(v); isConst {
			if bv != truth {
				continue
			}
			if ok, _ := s.search(h, nil, IsInstr(r), depth); ok {
				res = true
			}
		} else if phi, ok := v.(*ssa.Phi); ok && phi.Block() == r.Block() {
			for pi, e := range phi.Edges {
				if bv, isConst := BoolConst(e); isConst {
					if bv != truth {
						continue
					}
				} else if fakeCut(e) {
					continue
				}
				if s.edgeReachable(h, phi.Block().Preds[pi], phi.Block(), depth, 3) {
					res = true
				}
			}
		} else {
			if fakeCut(v) {
				continue
			}
			if ok, _ := s.search(h, nil, IsInstr(r), depth); ok {
				res = true
			}
		}
		if res {
			break
		}
	}
	if res {
		s.mayRet[k] = 1
	} else {
		s.mayRet[k] = 2
	}
	return res
}

// MayReturnBool: fn has a path from its entry, crossing no cut of q, to a return whose result #ridx can be
// `truth`. A returned comparison (or the boolean result of a first-party helper) that can only have that truth
// value when a cut fact holds counts as crossing the cut, as in a branch on it.
func MayReturnBool(fn *ssa.Function, ridx int, truth bool, q PathQuery) bool {
	s := &pathSearch{q: q, passable: map[*ssa.Call]int{}, mayRet: map[retKey]int{}}
	saved := activeCtx
	activeCtx = nil
	defer func() { activeCtx = saved }()
	return s.mayReturn(nil, fn, ridx, truth, 0)
}

// edgeReachable: some uncut path leads from the entry of h over the CFG edge pred -> blk. When pred only
// merges a boolean phi and branches on it (short-circuit evaluation kept in a variable), the edge is taken
// per incoming value of that phi: a constant decides the branch, a condition counts as branched on at the
// predecessor it arrives from (the jump threading of search, applied backwards from a returned phi).
func (s *pathSearch) edgeReachable(h *ssa.Function, pred, blk *ssa.BasicBlock, depth, fuel int) bool {
	for si, sb := range pred.Succs {
		if sb != blk || s.cutEdge(pred, si, depth) {
			continue
		}
		if phi2, ok := phiIfBlock(pred); ok && fuel > 0 {
			want := (si == 0) != phiIfNegated(pred)
			for j, v2 := range phi2.Edges {
				if bv, isConst := BoolConst(v2); isConst {
					if bv != want {
						continue
					}
				} else if s.q.CutEdge != nil {
					fake := &ssa.BasicBlock{Instrs: []ssa.Instruction{&ssa.If{Cond: v2}}, Succs: []*ssa.BasicBlock{{}, {}}}
					slot := 0
					if !want {
						slot = 1
					}
					if s.cutEdge(fake, slot, depth) {
						continue
					}
				}
				if s.edgeReachable(h, pred.Preds[j], pred, depth, fuel-1) {
					return true
				}
			}
			continue
		}
		term := pred.Instrs[len(pred.Instrs)-1]
		if ok, _ := s.search(h, nil, IsInstr(term), depth); ok {
			return true
		}
	}
	return false
}

func (s *pathSearch) search(fn *ssa.Function, from ssa.Instruction, to func(ssa.Instruction) bool, depth int) (bool, ssa.Instruction) {
	q := s.q
	if len(fn.Blocks) == 0 {
		return false, nil
	}
	visited := map[*ssa.BasicBlock]bool{}
	type st struct {
		b   *ssa.BasicBlock
		idx int
	}
	var work []st
	if from == nil && q.FromBlock != nil && depth == 0 {
		work = append(work, st{q.FromBlock, 0})
	} else if from == nil {
		work = append(work, st{fn.Blocks[0], 0})
		visited[fn.Blocks[0]] = true
	} else {
		b := from.Block()
		idx := -1
		for i, in := range b.Instrs {
			if in == from {
				idx = i
				break
			}
		}
		work = append(work, st{b, idx + 1})
	}
	for len(work) > 0 {
		cur := work[len(work)-1]
		work = work[:len(work)-1]
		stopped := false
		for i := cur.idx; i < len(cur.b.Instrs); i++ {
			in := cur.b.Instrs[i]
			if to(in) {
				return true, in
			}
			if q.CutInstr != nil && q.CutInstr(in) {
				stopped = true
				break
			}
			if !q.Shallow {
				if h := staticFirstParty(in); h != nil && depth < maxSummaryDepth {
					if q.DeepTo {
						activeCtx = append(activeCtx, in.(*ssa.Call))
						ok, w := s.search(h, nil, to, depth+1)
						activeCtx = activeCtx[:len(activeCtx)-1]
						if ok {
							return true, w
						}
					}
					if !s.calleePassable(in.(*ssa.Call), h, depth) {
						stopped = true
						break
					}
				}
			}
		}
		if stopped {
			continue
		}
		for i, succ := range cur.b.Succs {
			if s.cutEdge(cur.b, i, depth) {
				continue
			}
			// jump threading: `x := a && b; if x` — the successor only merges a boolean phi and
			// branches on it. Coming from this predecessor the phi has a known incoming value:
			// a constant decides the branch, a condition value is treated as if branched on here.
			if phi, ok := phiIfBlock(succ); ok {
				hit := false
				for _, in := range succ.Instrs {
					if to(in) {
						hit = true
					}
				}
				if hit {
					return true, succ.Instrs[0]
				}
				idx := -1
				for pi, p := range succ.Preds {
					if p == cur.b {
						idx = pi
					}
				}
				if idx >= 0 && idx < len(phi.Edges) {
					v := phi.Edges[idx]
					neg := phiIfNegated(succ)
					for k, next := range succ.Succs {
						want := k == 0
						if neg {
							want = !want
						}
						if bv, isConst := BoolConst(v); isConst {
							if bv != want {
								continue
							}
						} else if q.CutEdge != nil {
							fake := &ssa.BasicBlock{Instrs: []ssa.Instruction{&ssa.If{Cond: v}}, Succs: []*ssa.BasicBlock{next, next}}
							slot := 0
							if !want {
								slot = 1
							}
							if s.cutEdge(fake, slot, depth) {
								continue
							}
						}
						// the real edge succ -> next may itself be cut by a predicate on the phi
						if q.CutEdge != nil && q.CutEdge(succ, k) {
							continue
						}
						if !visited[next] {
							visited[next] = true
							work = append(work, st{next, 0})
						}
					}
					continue
				}
			}
			if !visited[succ] {
				visited[succ] = true
				work = append(work, st{succ, 0})
			}
		}
	}
	return false, nil
}

// phiIfBlock: the block consists of phis (and debug refs) followed by an If on one of those phis (possibly negated).
func phiIfBlock(b *ssa.BasicBlock) (*ssa.Phi, bool) {
	if len(b.Instrs) < 2 || len(b.Succs) != 2 {
		return nil, false
	}
	ifi, ok := b.Instrs[len(b.Instrs)-1].(*ssa.If)
	if !ok {
		return nil, false
	}
	cond := ifi.Cond
	if u, ok := cond.(*ssa.UnOp); ok && u.Op == token.NOT && u.Block() == b {
		cond = u.X
	}
	phi, ok := cond.(*ssa.Phi)
	if !ok || phi.Block() != b {
		return nil, false
	}
	if _, isBool := phi.Type().Underlying().(*types.Basic); !isBool {
		return nil, false
	}
	for _, in := range b.Instrs[:len(b.Instrs)-1] {
		switch x := in.(type) {
		case *ssa.Phi, *ssa.DebugRef:
		case *ssa.UnOp:
			if x.Op != token.NOT {
				return nil, false
			}
		default:
			return nil, false
		}
	}
	// every loop-carried phi is excluded: threading is only for merges of short-circuit evaluation
	for _, e := range phi.Edges {
		if e == ssa.Value(phi) {
			return nil, false
		}
	}
	return phi, true
}

func phiIfNegated(b *ssa.BasicBlock) bool {
	ifi := b.Instrs[len(b.Instrs)-1].(*ssa.If)
	u, ok := ifi.Cond.(*ssa.UnOp)
	return ok && u.Op == token.NOT
}

// IsInstr builds a target predicate for one instruction.
func IsInstr(x ssa.Instruction) func(ssa.Instruction) bool {
	return func(in ssa.Instruction) bool { return in == x }
}

// InLoop reports whether the instruction's block lies on a CFG cycle.
func InLoop(in ssa.Instruction) bool {
	b := in.Block()
	seen := map[*ssa.BasicBlock]bool{}
	work := append([]*ssa.BasicBlock{}, b.Succs...)
	for len(work) > 0 {
		x := work[len(work)-1]
		work = work[:len(work)-1]
		if x == b {
			return true
		}
		if seen[x] {
			continue
		}
		seen[x] = true
		work = append(work, x.Succs...)
	}
	return false
}

// BlockReaches: is there a CFG path (possibly empty) from a to b.
func BlockReaches(a, b *ssa.BasicBlock) bool {
	if a == b {
		return true
	}
	seen := map[*ssa.BasicBlock]bool{a: true}
	work := []*ssa.BasicBlock{a}
	for len(work) > 0 {
		x := work[len(work)-1]
		work = work[:len(work)-1]
		for _, s := range x.Succs {
			if s == b {
				return true
			}
			if !seen[s] {
				seen[s] = true
				work = append(work, s)
			}
		}
	}
	return false
}

// ---------------------------------------------------------------------------
// Reaching stores for local variables that SSA left in memory (captured or
// address-taken locals are Allocs with Store/Load).

// ReachingStores returns the stores to the same Alloc that may reach the load,
// and whether the zero-initialised state may reach it.
func ReachingStores(load *ssa.UnOp) (stores []*ssa.Store, zero bool) {
	alloc, ok := load.X.(*ssa.Alloc)
	if !ok {
		return nil, false
	}
	fn := load.Parent()
	// backward search from the load
	type st struct {
		b   *ssa.BasicBlock
		idx int // scan instructions idx-1 .. 0
	}
	start := load.Block()
	idx := 0
	for i, in := range start.Instrs {
		if in == ssa.Instruction(load) {
			idx = i
		}
	}
	visited := map[*ssa.BasicBlock]bool{}
	work := []st{{start, idx}}
	seenStore := map[*ssa.Store]bool{}
	for len(work) > 0 {
		s := work[len(work)-1]
		work = work[:len(work)-1]
		found := false
		for i := s.idx - 1; i >= 0; i-- {
			if stx, ok := s.b.Instrs[i].(*ssa.Store); ok && stx.Addr == ssa.Value(alloc) {
				if !seenStore[stx] {
					seenStore[stx] = true
					stores = append(stores, stx)
				}
				found = true
				break
			}
			if s.b.Instrs[i] == ssa.Instruction(alloc) {
				zero = true
				found = true
				break
			}
		}
		if found {
			continue
		}
		if s.b == fn.Blocks[0] {
			zero = true
		}
		if len(s.b.Preds) == 0 && s.b != fn.Blocks[0] {
			// the recover block: entered after a recovered panic at any point of the function
			zero = true
			for _, b := range fn.Blocks {
				for _, in := range b.Instrs {
					if stx, ok := in.(*ssa.Store); ok && stx.Addr == ssa.Value(alloc) && !seenStore[stx] {
						seenStore[stx] = true
						stores = append(stores, stx)
					}
				}
			}
		}
		for _, p := range s.b.Preds {
			if !visited[p] {
				visited[p] = true
				work = append(work, st{p, len(p.Instrs)})
			}
		}
	}
	return stores, zero
}

// Origins walks a value back through phis, extracts, interface conversions and
// loads of local variables to the values that define it. Zero-initialised
// locals contribute a nil entry.
func Origins(v ssa.Value) []ssa.Value {
	seen := map[ssa.Value]bool{}
	var out []ssa.Value
	hasNil := false
	var walk func(v ssa.Value, d int)
	walk = func(v ssa.Value, d int) {
		if v == nil || seen[v] || d > 24 {
			return
		}
		seen[v] = true
		switch x := v.(type) {
		case *ssa.Phi:
			for _, e := range x.Edges {
				walk(e, d+1)
			}
		case *ssa.ChangeInterface:
			walk(x.X, d+1)
		case *ssa.MakeInterface:
			walk(x.X, d+1)
		case *ssa.ChangeType:
			walk(x.X, d+1)
		case *ssa.UnOp:
			if x.Op == token.MUL {
				if _, ok := x.X.(*ssa.Alloc); ok {
					stores, zero := ReachingStores(x)
					for _, s := range stores {
						walk(s.Val, d+1)
					}
					if zero {
						hasNil = true
					}
					return
				}
				// field store-to-load forwarding: x.f read where the function has exactly
				// one store to the same field of the same variable and it dominates the read
				if fa, ok := x.X.(*ssa.FieldAddr); ok {
					if st := soleDominatingFieldStore(x, fa); st != nil {
						walk(st.Val, d+1)
						return
					}
					if st := ctxFieldStore(x, fa); st != nil {
						walk(st.Val, d+1)
						return
					}
					// a result object: the field of a struct that a first-party helper built and returned —
					// continue with what the helper stored there, read in the helper's frame
					if val, call := recordFieldFromHelper(fa); val != nil && len(activeCtx) < 6 {
						activeCtx = append(activeCtx, call)
						walk(val, d+1)
						activeCtx = activeCtx[:len(activeCtx)-1]
						return
					}
				}
			}
			out = append(out, v)
		case *ssa.Parameter:
			if a := CtxArg(x); a != nil {
				walk(a, d+1)
				return
			}
			out = append(out, v)
		default:
			out = append(out, v)
		}
	}
	walk(v, 0)
	if hasNil {
		out = append(out, nil)
	}
	return out
}

// DeepOrigin is an origin found by following a value into the returns of the statically resolved
// first-party helper that produced it, with the call context under which it was found.
type DeepOrigin struct {
	V   ssa.Value
	Ctx []*ssa.Call
}

// OriginsDeep is Origins continued through helper results: when an origin is result #i of a call to a
// first-party function, the origins of that function's i-th return values are reported instead (under the
// call's context, so the helper's parameters resolve to the caller's arguments), to depth 3.
func OriginsDeep(v ssa.Value) []DeepOrigin {
	var out []DeepOrigin
	var walk func(v ssa.Value, depth int)
	walk = func(v ssa.Value, depth int) {
		for _, o := range Origins(v) {
			if o != nil && depth < 3 {
				if call, idx := CallOf(o); call != nil {
					if c, ok := call.(*ssa.Call); ok {
						if h := c.Call.StaticCallee(); h != nil && len(h.Blocks) > 0 {
							activeCtx = append(activeCtx, c)
							for _, r := range Returns(h) {
								if idx < len(r.Results) {
									walk(r.Results[idx], depth+1)
								}
							}
							activeCtx = activeCtx[:len(activeCtx)-1]
							continue
						}
					}
				}
			}
			out = append(out, DeepOrigin{V: o, Ctx: append([]*ssa.Call{}, activeCtx...)})
		}
	}
	walk(v, 0)
	return out
}

// CurrentCtx returns a copy of the active call context.
func CurrentCtx() []*ssa.Call { return append([]*ssa.Call{}, activeCtx...) }

// WithCtx runs f with the given call context active (see activeCtx).
func WithCtx(ctx []*ssa.Call, f func()) {
	saved := activeCtx
	activeCtx = ctx
	defer func() { activeCtx = saved }()
	f()
}

func soleDominatingFieldStore(load *ssa.UnOp, fa *ssa.FieldAddr) *ssa.Store {
	fn := load.Parent()
	var found *ssa.Store
	for _, b := range fn.Blocks {
		for _, in := range b.Instrs {
			st, ok := in.(*ssa.Store)
			if !ok {
				continue
			}
			sfa, ok := st.Addr.(*ssa.FieldAddr)
			if !ok || sfa.Field != fa.Field || !types.Identical(sfa.X.Type(), fa.X.Type()) {
				continue
			}
			if !sameCell(sfa.X, fa.X) {
				continue
			}
			if found != nil {
				return nil
			}
			found = st
		}
	}
	if found == nil {
		return nil
	}
	if found.Block() == load.Block() {
		for _, in := range found.Block().Instrs {
			if in == ssa.Instruction(found) {
				return found
			}
			if in == ssa.Instruction(load) {
				return nil
			}
		}
	}
	if found.Block().Dominates(load.Block()) {
		return found
	}
	return nil
}

// ctxFieldStore: the load reads field f of a parameter inside a helper the active search
// descended into; the helper itself never stores to that field; the caller has exactly one
// store to the same field of the argument variable and it dominates the call site.
func ctxFieldStore(load *ssa.UnOp, fa *ssa.FieldAddr) *ssa.Store {
	base := fa.X
	for hop := 0; hop < 4; hop++ {
		p, ok := base.(*ssa.Parameter)
		if !ok {
			return nil
		}
		call := ctxCallFor(p.Parent())
		arg := CtxArg(p)
		if call == nil || arg == nil {
			return nil
		}
		// no store to this field anywhere in the helper
		for _, b := range p.Parent().Blocks {
			for _, in := range b.Instrs {
				if st, ok := in.(*ssa.Store); ok {
					if sfa, ok := st.Addr.(*ssa.FieldAddr); ok && sfa.Field == fa.Field && types.Identical(sfa.X.Type(), fa.X.Type()) {
						return nil
					}
				}
			}
		}
		caller := call.Parent()
		var found *ssa.Store
		n := 0
		for _, b := range caller.Blocks {
			for _, in := range b.Instrs {
				st, ok := in.(*ssa.Store)
				if !ok {
					continue
				}
				sfa, ok := st.Addr.(*ssa.FieldAddr)
				if !ok || sfa.Field != fa.Field || !types.Identical(sfa.X.Type(), arg.Type()) || !sameCell(sfa.X, arg) {
					continue
				}
				found = st
				n++
			}
		}
		if n == 1 {
			if found.Block() == call.Block() {
				for _, in := range found.Block().Instrs {
					if in == ssa.Instruction(found) {
						return found
					}
					if in == ssa.Instruction(call) {
						return nil
					}
				}
			}
			if found.Block().Dominates(call.Block()) {
				return found
			}
			return nil
		}
		if n > 1 {
			return nil
		}
		base = arg // the caller is itself a helper: continue outward
	}
	return nil
}

// recordFieldFromHelper: fa addresses field f of a struct pointer that is result #i of a call to a statically
// resolved first-party function which, on every return that yields a non-nil pointer there, returns one and
// the same composite literal allocated in its body, with exactly one store to field f. Returns the stored
// value and the call.
func recordFieldFromHelper(fa *ssa.FieldAddr) (ssa.Value, *ssa.Call) {
	base := fa.X
	if ld, ok := base.(*ssa.UnOp); ok && ld.Op == token.MUL {
		if al, ok := ld.X.(*ssa.Alloc); ok {
			stores, zero := ReachingStores(ld)
			if zero || len(stores) != 1 {
				_ = al
				return nil, nil
			}
			base = stores[0].Val
		}
	}
	ci, idx := CallOf(base)
	call, ok := ci.(*ssa.Call)
	if !ok || call == nil {
		return nil, nil
	}
	h := call.Call.StaticCallee()
	if h == nil || len(h.Blocks) == 0 || h.Pkg == nil || !IsFirstParty(h.Pkg.Pkg.Path()) {
		return nil, nil
	}
	var rec *ssa.Alloc
	for _, r := range Returns(h) {
		if idx >= len(r.Results) {
			return nil, nil
		}
		v := r.Results[idx]
		if isNilConst(v) {
			continue
		}
		al, ok := v.(*ssa.Alloc)
		if !ok || !al.Heap {
			return nil, nil
		}
		if rec != nil && rec != al {
			return nil, nil
		}
		rec = al
	}
	if rec == nil || rec.Referrers() == nil {
		return nil, nil
	}
	var val ssa.Value
	n := 0
	for _, r := range *rec.Referrers() {
		rfa, ok := r.(*ssa.FieldAddr)
		if !ok || rfa.Field != fa.Field || rfa.Referrers() == nil {
			continue
		}
		for _, u := range *rfa.Referrers() {
			if st, ok := u.(*ssa.Store); ok && st.Addr == ssa.Value(rfa) {
				val = st.Val
				n++
			}
		}
	}
	if n != 1 {
		return nil, nil
	}
	return val, call
}

// sameCell: two values denote the same variable (identical, or loads of one local cell).
func sameCell(a, b ssa.Value) bool {
	if a == b {
		return true
	}
	la, ok1 := a.(*ssa.UnOp)
	lb, ok2 := b.(*ssa.UnOp)
	return ok1 && ok2 && la.Op == token.MUL && lb.Op == token.MUL && la.X == lb.X
}

// CallOf returns the call that produced v (directly or through Extract), with the result index.
func CallOf(v ssa.Value) (ssa.CallInstruction, int) {
	switch x := v.(type) {
	case *ssa.Call:
		return x, 0
	case *ssa.Extract:
		if c, ok := x.Tuple.(*ssa.Call); ok {
			return c, x.Index
		}
	}
	return nil, -1
}

// ---------------------------------------------------------------------------
// Branch atoms

// Atom is a normalised fact established by taking one branch of an If.
type Atom struct {
	V     ssa.Value // tested value (after stripping !, == nil, == const)
	Op    string    // "true","false","nil","nonnil","eq","ne","lt","le","gt","ge"
	Other ssa.Value // for eq/ne/orderings: right operand
}

func isNilConst(v ssa.Value) bool {
	c, ok := v.(*ssa.Const)
	return ok && c.Value == nil && !isBasicNonPointer(c.Type())
}

func isBasicNonPointer(t types.Type) bool {
	_, ok := t.Underlying().(*types.Basic)
	return ok
}

// BoolConst returns (value, true) if v is a boolean constant.
func BoolConst(v ssa.Value) (bool, bool) {
	c, ok := v.(*ssa.Const)
	if !ok || c.Value == nil || c.Value.Kind() != constant.Bool {
		return false, false
	}
	return constant.BoolVal(c.Value), true
}

// IsBoolConst reports whether v is a boolean constant.
func IsBoolConst(v ssa.Value) bool { _, ok := BoolConst(v); return ok }

// CondAtom normalises a boolean condition value under a polarity.
func CondAtom(cond ssa.Value, truth bool) Atom {
	for i := 0; i < 8; i++ {
		switch x := cond.(type) {
		case *ssa.UnOp:
			if x.Op == token.NOT {
				cond = x.X
				truth = !truth
				continue
			}
		case *ssa.BinOp:
			op := x.Op
			if op == token.EQL || op == token.NEQ {
				eq := (op == token.EQL) == truth
				a, b := x.X, x.Y
				if isNilConst(a) {
					a, b = b, a
				}
				if isNilConst(b) {
					if eq {
						return Atom{V: a, Op: "nil"}
					}
					return Atom{V: a, Op: "nonnil"}
				}
				if bv, ok := BoolConst(b); ok {
					cond = a
					truth = eq == bv
					continue
				}
				if bv, ok := BoolConst(a); ok {
					cond = b
					truth = eq == bv
					continue
				}
				if eq {
					return Atom{V: a, Op: "eq", Other: b}
				}
				return Atom{V: a, Op: "ne", Other: b}
			}
			var name string
			switch op {
			case token.LSS:
				name = "lt"
			case token.LEQ:
				name = "le"
			case token.GTR:
				name = "gt"
			case token.GEQ:
				name = "ge"
			}
			if name != "" {
				if !truth {
					name = map[string]string{"lt": "ge", "le": "gt", "gt": "le", "ge": "lt"}[name]
				}
				return Atom{V: x.X, Op: name, Other: x.Y}
			}
		}
		// a boolean kept in a variable or field: continue with its single definition
		if o := Origins(cond); len(o) == 1 && o[0] != nil && o[0] != cond {
			switch o[0].(type) {
			case *ssa.BinOp, *ssa.UnOp:
				cond = o[0]
				continue
			}
		}
		break
	}
	if truth {
		return Atom{V: cond, Op: "true"}
	}
	return Atom{V: cond, Op: "false"}
}

// EdgeAtom returns the fact established by the edge b -> b.Succs[i].
func EdgeAtom(b *ssa.BasicBlock, i int) (Atom, bool) {
	if len(b.Instrs) == 0 {
		return Atom{}, false
	}
	ifi, ok := b.Instrs[len(b.Instrs)-1].(*ssa.If)
	if !ok || len(b.Succs) != 2 {
		return Atom{}, false
	}
	return CondAtom(ifi.Cond, i == 0), true
}

// CutEdgesWhere builds a CutEdge function from a predicate on edge atoms.
func CutEdgesWhere(pred func(a Atom) bool) func(b *ssa.BasicBlock, succ int) bool {
	return func(b *ssa.BasicBlock, succ int) bool {
		a, ok := EdgeAtom(b, succ)
		return ok && pred(a)
	}
}

// OriginsAllFromCall: every defining value of v is result #idx of one of the
// given calls (or the zero value, when allowZero).
func OriginsAllFromCall(v ssa.Value, calls map[ssa.CallInstruction]int, allowZero bool) bool {
	orig := Origins(v)
	if len(orig) == 0 {
		return false
	}
	some := false
	for _, o := range orig {
		if o == nil {
			if !allowZero {
				return false
			}
			continue
		}
		if isNilConst(o) {
			if !allowZero {
				return false
			}
			continue
		}
		c, idx := CallOf(o)
		if c == nil {
			return false
		}
		want, ok := calls[c]
		if !ok || (want >= 0 && want != idx) {
			return false
		}
		some = true
	}
	return some
}

// ErrResultIndex returns the index of the trailing error result of a signature, or -1.
func ErrResultIndex(sig *types.Signature) int {
	n := sig.Results().Len()
	if n == 0 {
		return -1
	}
	t := sig.Results().At(n - 1).Type()
	if named, ok := t.(*types.Named); ok && named.Obj().Pkg() == nil && named.Obj().Name() == "error" {
		return n - 1
	}
	return -1
}

// NilErrEdgesOf cuts every branch edge that establishes "the error returned by
// one of these calls is nil" — i.e. after cutting, only failure paths remain.
func NilErrEdgesOf(calls ...ssa.CallInstruction) func(b *ssa.BasicBlock, succ int) bool {
	set := map[ssa.CallInstruction]int{}
	for _, c := range calls {
		set[c] = ErrResultIndex(c.Common().Signature())
	}
	return CutEdgesWhere(func(a Atom) bool {
		return a.Op == "nil" && OriginsAllFromCall(a.V, set, true)
	})
}

// NilErrEdgesOfStrict is NilErrEdgesOf, except that a variable which may also hold an explicitly assigned
// nil (`err = nil` after the call) does not count: only the call's own result (or the zero value of a
// variable not yet assigned) establishes "the call returned nil".
func NilErrEdgesOfStrict(calls ...ssa.CallInstruction) func(b *ssa.BasicBlock, succ int) bool {
	set := map[ssa.CallInstruction]int{}
	for _, c := range calls {
		set[c] = ErrResultIndex(c.Common().Signature())
	}
	return CutEdgesWhere(func(a Atom) bool {
		if a.Op != "nil" {
			return false
		}
		for _, o := range Origins(a.V) {
			if o != nil && isNilConst(o) {
				return false
			}
		}
		return OriginsAllFromCall(a.V, set, true)
	})
}

// Calls lists the call instructions of fn (not of nested literals) satisfying pred.
func Calls(fn *ssa.Function, pred func(c ssa.CallInstruction) bool) []ssa.CallInstruction {
	var out []ssa.CallInstruction
	for _, b := range fn.Blocks {
		for _, in := range b.Instrs {
			if c, ok := in.(ssa.CallInstruction); ok && pred(c) {
				out = append(out, c)
			}
		}
	}
	return out
}

// Returns lists the return instructions of fn.
func Returns(fn *ssa.Function) []*ssa.Return {
	var out []*ssa.Return
	for _, b := range fn.Blocks {
		for _, in := range b.Instrs {
			if r, ok := in.(*ssa.Return); ok {
				out = append(out, r)
			}
		}
	}
	return out
}

// PhiLeaf is one non-phi value that can flow into a phi web, with the CFG edge it arrives on.
type PhiLeaf struct {
	Pred *ssa.BasicBlock // predecessor block of the phi's block on which Val arrives
	Phi  *ssa.Phi
	Val  ssa.Value
	Self bool // Val is a phi of the same web (value carried around a loop)
}

// PhiLeaves expands a value through its phi web. Non-phi values yield a single leaf with Pred nil.
func PhiLeaves(v ssa.Value) []PhiLeaf {
	var out []PhiLeaf
	seen := map[*ssa.Phi]bool{}
	var walk func(v ssa.Value)
	walk = func(v ssa.Value) {
		phi, ok := v.(*ssa.Phi)
		if !ok {
			out = append(out, PhiLeaf{Val: v})
			return
		}
		if seen[phi] {
			return
		}
		seen[phi] = true
		for i, e := range phi.Edges {
			pred := phi.Block().Preds[i]
			if ep, ok := e.(*ssa.Phi); ok {
				if seen[ep] {
					out = append(out, PhiLeaf{Pred: pred, Phi: phi, Val: e, Self: true})
					continue
				}
				// nested phi: its own leaves, but also remember the carrying edge
				walk(ep)
				continue
			}
			out = append(out, PhiLeaf{Pred: pred, Phi: phi, Val: e})
		}
	}
	walk(v)
	return out
}

// ReachableWithin: blocks reachable from start without leaving `within` and without entering `stop`.
func ReachableWithin(start *ssa.BasicBlock, within map[*ssa.BasicBlock]bool, stop *ssa.BasicBlock) map[*ssa.BasicBlock]bool {
	seen := map[*ssa.BasicBlock]bool{}
	if start == stop || (within != nil && !within[start]) {
		return seen
	}
	seen[start] = true
	work := []*ssa.BasicBlock{start}
	for len(work) > 0 {
		b := work[len(work)-1]
		work = work[:len(work)-1]
		for _, s := range b.Succs {
			if s == stop || seen[s] || (within != nil && !within[s]) {
				continue
			}
			seen[s] = true
			work = append(work, s)
		}
	}
	return seen
}
