#!/bin/sh
# scratch.sh <patchdir> <CNN>...: apply patch to a scratch copy (/tmp/rs) and run the listed checks, printing non-discharged lines
d=$1; shift
rm -rf /tmp/rs /tmp/rs_verif; rsync -a --exclude .git /repo/ /tmp/rs/; (cd /tmp/rs && patch -p1 -s < $d/patch.diff) || exit 1
mkdir -p /tmp/rs_verif/evidence; cp /verif/known_findings.json /tmp/rs_verif/
for i in "$@"; do /verif/bin/grogcheck check $i -repo /tmp/rs -verif /tmp/rs_verif | grep -E "violated|undecided|VIOLATION" | grep -v "^property"; done
