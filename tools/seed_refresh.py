#!/usr/bin/env python3
"""Re-evaluates every seed under /verif/seeded against the current checker (no re-confirmation of the
demonstrations) and refreshes caught_by / reported_obligations / caught_by_own_property in its meta.json."""
import json, glob, os, subprocess, sys
from concurrent.futures import ThreadPoolExecutor
def one(d):
    r = subprocess.run(['/verif/tools/seed_eval.py', d, '--no-confirm'], capture_output=True, text=True)
    try:
        e = json.loads(r.stdout)
    except Exception:
        return os.path.basename(d), None
    p = d + '/meta.json'
    m = json.load(open(p))
    m['caught_by'] = sorted(e.get('fired', {}).keys())
    m['reported_obligations'] = e.get('fired', {})
    m['caught_by_own_property'] = bool(e.get('detected_by_own_property'))
    if m['caught_by_own_property']:
        m.pop('why_not_caught', None)
    json.dump(m, open(p, 'w'), indent=1)
    return os.path.basename(d), m['caught_by_own_property'], m['caught_by']
dirs = sorted(d for d in glob.glob('/verif/seeded/*') if not sys.argv[1:] or any(d.endswith(x) or os.path.basename(d)[3:] == x for x in sys.argv[1:]))
with ThreadPoolExecutor(7) as ex:
    res = list(ex.map(one, dirs))
own = sum(1 for r in res if r[1])
print('seeds', len(res), 'caught by own property', own)
for r in res:
    if not r[1]: print('  not own:', r)
