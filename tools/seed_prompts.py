#!/usr/bin/env python3
"""Write the prompt files of one seeding round: /tmp/seedprompts/<sid>.md for sid = <prop><letter>.
Each holds only the property text, one-line mechanisms of the earlier seeds of that property (so that a
mechanism is not repeated) and the working instructions - nothing about the checker.
usage: seed_prompts.py <letter>..."""
import json, os, sys, glob
letters = sys.argv[1:]
props = [json.loads(l) for l in open('/verif/properties.jsonl')]
focus = {
 0: "Prefer a change in the part of the code base that implements the property's main mechanism, made in the course of a plausible optimisation (caching a computed value, avoiding repeated work, batching, early exit).",
 1: "Prefer a change away from the obvious site: a helper, a sibling implementation (another loader, another cache backend, another output handler, another command), configuration plumbing, or two cooperating edits in different packages that each look fine alone; made in the course of a plausible feature or clean-up.",
}
for p in props:
    pid = p['id']
    if (pid == 'C17') != bool(os.environ.get('ONLY_C17')): continue
    earlier = []
    for d in sorted(glob.glob('/verif/seeded/%s?' % pid)):
        try: m = json.load(open(d + '/meta.json'))
        except Exception: continue
        s = (m.get('summary') or '').replace('\n', ' ')
        earlier.append('- ' + s[:260])
    for k, L in enumerate(letters):
        sid = pid + L
        txt = f"""# Task {sid}

You are working on the Go project chrismatix/grog (a monorepo build tool: parallel DAG executor, content-addressed
output cache, Bazel-style labels). Your own scratch git worktree of it is `/tmp/wt/{sid}` — work ONLY there.
Never read or write `/repo` or `/verif`.

Every shell call needs: `export PATH=/opt/veriftools/go1.26.8/bin:$PATH GOTOOLCHAIN=local GOFLAGS=-mod=mod GOPROXY=off GOSUMDB=off; unset GOWORK`
(no network; nothing can be downloaded). `go build ./...` and `go test -vet=off -count=1 ./internal/...` work in the worktree
(the package grog/internal/completions fails on the unchanged tree too; ignore it; TestRunWithConcurrentShutdown in internal/worker is flaky).
You can build the CLI with `go build -o /tmp/wt/{sid}/grogbin .` and drive it in a temporary workspace (a directory with `grog.toml`
and BUILD.json / BUILD.yaml / BUILD.star / Makefile packages; see docs/ and integration/test_repos for the formats).

## The property (a guarantee users of grog rely on)

**{p['title']}**

{p['statement']}

Quantifier: {p.get('quantifier','')}

## What to produce

A *realistic* change to grog's non-test source (what a contributor could plausibly submit: an optimisation, a refactoring,
a small feature, a clean-up — not sabotage, no dead code whose only purpose is to break things) that **breaks this property**
while the project **still compiles and every existing test still passes**. The breakage must need something specific to
manifest — a particular interleaving, a crash or fault at a particular point, a multi-step sequence of operations, an unusual
but legal input, or two cooperating sites that each look fine alone — not something ordinary use would expose at once.
Read the code first; pick a mechanism that really is load-bearing for the property.

{focus[k % 2]}

Do not repeat a mechanism that was already used for this property:
{chr(10).join(earlier) if earlier else '- (none yet)'}

Also produce a **demonstration**: a Go test file (placed into a package of the worktree) or a shell script driving the built CLI
that FAILS (non-zero exit) with your change applied and PASSES (exit 0) on the unchanged tree. It must be deterministic enough to
fail at least 9 times out of 10 with the change (use hooks that already exist, sleeps in commands, many iterations, etc.), finish
in under two minutes, and need no network or docker. Verify both directions yourself with `git diff > /tmp/seed/{sid}/patch.diff; git checkout -- .; <run demo>; git apply /tmp/seed/{sid}/patch.diff`. NEVER use `git stash`: all scratch worktrees share one stash and other agents are working concurrently, so a pop would hand you somebody else's change. Before writing the final patch.diff, check `git diff --stat` lists only files you edited.
If you find that the UNCHANGED code already violates the property in some scenario, do not use that as your seed; report it in meta.json under "already_broken" and still deliver a seed based on a different mechanism.

## Deliverables (write to `/tmp/seed/{sid}/`, create the directory)

- `patch.diff` — `git diff` of the source change only (relative to the worktree HEAD, `-p1` applicable; do NOT include the demonstration).
- the demonstration file(s) — a `*_test.go` named `zz_seed_demo_{sid}_test.go`, or a script `zz_seed_demo_{sid}.sh` (a script gets the worktree root as cwd, builds the CLI itself into a temp dir, and cleans up).
- `meta.json` with string fields: `property` ("{pid}"), `summary` (what the change does and its cover story), `breaks` (how the property fails),
  `needs_to_manifest` (what specific circumstances are needed), `files_changed` (list), `demo_file_dest` (path of the demonstration file relative to the repository root, e.g. `internal/execution/zz_seed_demo_{sid}_test.go`),
  `demo_cmd` (one shell command run from the repository root, e.g. `go test -vet=off -count=1 -run TestSeedDemo{sid} ./internal/execution/`), optional `already_broken`.

Finish by leaving the worktree clean of build products you created outside it (temp dirs) and reply with a three-line summary.
"""
        open('/tmp/seedprompts/%s.md' % sid, 'w').write(txt)
        print(sid, len(earlier))
