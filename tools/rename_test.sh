#!/bin/sh
# Renames 24 functions/methods, 11 types and 3 struct fields in a scratch copy of /repo (plain word-boundary
# sed, then go build) and runs every check against it: all must stay silent (exit 0, no new obligation).
# usage: tools/rename_test.sh   (scratch copy under /tmp/rn, removed afterwards)
export PATH=/opt/veriftools/go1.26.8/bin:$PATH GOTOOLCHAIN=local GOFLAGS=-mod=mod GOPROXY=off GOSUMDB=off; unset GOWORK
rm -rf /tmp/rn /tmp/rn_verif; rsync -a --exclude .git /repo/ /tmp/rn/; cd /tmp/rn || exit 2
for pair in BuildGraph:ConstructGraph CheckTargetConstraints:ValidateTargetConstraints LoadDependencyOutputs:EnsureDependencyOutputs OnTargetComplete:FinishTarget GetTargetDependencies:ResolvedDependencies BuildNodeMapFromPackages:NodeMapOf WriteOutputs:StoreOutputs LoadOutputs:RestoreOutputs GetNoCacheOutputHash:HashLocalOutputs getTaskFunc:makeTask IsTainted:HasTaint AllOutputs:EveryOutput SkipsCache:BypassesCache GetDescendants:TransitiveDependants NewTaskWorkerPool:NewPool selectAllAncestorsForBuild:selectClosure getEnrichedPackage:enrich processRunning:pidAlive markBinOutputExecutable:chmodBin runOutputChecks:verifyOutputChecks detectOutputConflicts:findOutputConflicts resolveTarget:followAliases cleanOutputPath:normalOutputPath mergePackages:mergeInto Registry:OutputRegistry TaintCache:TaintStore TargetResultCache:ResultStore OutputsLoaded:OutputsPresent DirectedTargetGraph:BuildDag Walker:GraphWalker TaskWorkerPool:SlotPool HasCacheHit:CacheEntryFound Selector:TargetSelector WorkspaceLocker:BuildLock lockFilePath:lockPath FileSystemCache:DiskCache RemoteWrapper:TieredCache OutputsAvailable:AlreadyMaterialised; do
  o=${pair%%:*}; n=${pair##*:}
  grep -rl --include=*.go "\b$o\b" . | grep -v "/proto/gen/" | xargs sed -i "s/\b$o\b/$n/g"
done
go build ./... || { echo "renamed copy does not build"; exit 2; }
mkdir -p /tmp/rn_verif/evidence; cp /verif/known_findings.json /tmp/rn_verif/
rc=0
for i in C01 C02 C03 C04 C05 C06 C07 C08 C09 C10 C11 C12 C13 C14 C15 C16 C17 C18 C19 C20; do echo $i; done | xargs -P 6 -I{} sh -c "/verif/bin/grogcheck check {} -repo /tmp/rn -verif /tmp/rn_verif > /tmp/rn_{}.out 2>&1; echo {} exit=\$? \$(grep -c '^VIOLATION' /tmp/rn_{}.out) violations" | sort
grep -l "^VIOLATION" /tmp/rn_C*.out >/dev/null 2>&1 && rc=1
rm -rf /tmp/rn /tmp/rn_verif
exit $rc
