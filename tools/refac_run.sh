#!/bin/sh
# evaluate the refactor patches /tmp/refac/<id> (all, or the listed ones) with the checker named by $GROGCHECK; print false alarms
cd /verif
LIST=${@:-$(ls /tmp/refac)}
for r in $LIST; do echo $r; done | xargs -P 4 -I{} sh -c 'python3 tools/refac_eval.py /tmp/refac/{} > /tmp/refac/{}/eval.json 2>/tmp/refac/{}/eval.err'
for r in $LIST; do python3 - "$r" <<'P'
import json,sys
r=sys.argv[1]
try: e=json.load(open('/tmp/refac/%s/eval.json'%r))
except Exception as ex: print(r,'NO EVAL'); sys.exit()
print(r, 'applies' if e['patch_applies'] else 'NOAPPLY', 'builds' if e['builds'] else 'NOBUILD', {k:list(v.keys()) for k,v in e['false_alarms'].items()})
P
done
