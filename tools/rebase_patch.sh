#!/bin/sh
# rebase_patch.sh <dir>...: re-create <dir>/patch.diff against the current /repo (applied with patch's fuzz, re-diffed exactly)
for d in "$@"; do
  rm -rf /tmp/rb && rsync -a --exclude .git /repo/ /tmp/rb/ || exit 1
  if ! (cd /tmp/rb && patch -p1 -s --no-backup-if-mismatch < "$d/patch.diff" >/dev/null 2>&1); then echo "REJECT $d"; continue; fi
  find /tmp/rb -name '*.orig' -delete
  (cd /tmp && diff -ruN --exclude=.git /repo /tmp/rb | sed -E 's#^--- /repo/#--- a/#; s#^\+\+\+ /tmp/rb/#+++ b/#; s#^diff -ruN.* /repo/(.*) /tmp/rb/.*#diff --git a/\1 b/\1#' | sed -E 's#^(--- a/[^\t]*)\t.*#\1#; s#^(\+\+\+ b/[^\t]*)\t.*#\1#' ) > /tmp/rb.diff
  if [ -s /tmp/rb.diff ]; then cp /tmp/rb.diff "$d/patch.diff"; echo "rebased $d"; else echo "EMPTY $d"; fi
done
rm -rf /tmp/rb /tmp/rb.diff
