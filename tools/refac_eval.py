#!/usr/bin/env python3
"""Run every registered check against a behaviour-preserving refactoring (patch.diff in the
given directory) applied to a scratch copy of /repo; any obligation that is not discharged and
is not reported on the unchanged tree is a FALSE ALARM.  usage: refac_eval.py <dir> [--props ..]"""
import sys, os, json, subprocess, shutil
GC = os.environ.get('GROGCHECK', '/verif/bin/grogcheck')
BASE = '/tmp/seed/base_verif' + ('_dev' if GC.endswith('.dev') else '')
d = sys.argv[1].rstrip('/')
props = None
for i, a in enumerate(sys.argv):
    if a == '--props': props = sys.argv[i + 1].split(',')
env = dict(os.environ, PATH='/opt/veriftools/go1.26.8/bin:' + os.environ['PATH'], GOTOOLCHAIN='local', GOFLAGS='-mod=mod', GOPROXY='off', GOSUMDB='off')
scratch = '/tmp/refchk_%d' % os.getpid()
subprocess.check_call(['rsync', '-a', '--exclude', '.git', '/repo/', scratch + '/'])
res = {'refactor': os.path.basename(d)}
try:
    r = subprocess.run('patch -p1 --no-backup-if-mismatch < %s/patch.diff' % d, shell=True, cwd=scratch, capture_output=True, text=True)
    res['patch_applies'] = r.returncode == 0
    r = subprocess.run(['go', 'build', './...'], cwd=scratch, env=env, capture_output=True, text=True)
    res['builds'] = r.returncode == 0
    def bad(evf):
        try: ev = json.load(open(evf))
        except Exception: return {'<no evidence>': 'x'}
        return {o['key']: o.get('witness', '')[:220] for o in ev['coverage'].get('samples', []) if o['status'] != 'discharged' and not o.get('known_finding')}
    os.makedirs(scratch + '_verif/evidence', exist_ok=True)
    os.makedirs(BASE + '/evidence', exist_ok=True)
    shutil.copy('/verif/known_findings.json', scratch + '_verif/known_findings.json')
    shutil.copy('/verif/known_findings.json', BASE + '/known_findings.json')
    ids = props or [c['property_id'] for c in json.load(open('/verif/MANIFEST.json'))['checks']]
    alarms = {}
    for i in ids:
        basef = BASE + '/evidence/%s.json' % i
        if not os.path.exists(basef) or os.path.getmtime(basef) < os.path.getmtime(GC):
            subprocess.run([GC, 'check', i, '-repo', '/repo', '-verif', BASE + ''], env=env, capture_output=True, text=True)
        subprocess.run([GC, 'check', i, '-repo', scratch, '-verif', scratch + '_verif'], env=env, capture_output=True, text=True)
        b = bad(basef); n = bad(scratch + '_verif/evidence/%s.json' % i)
        new = {k: v for k, v in n.items() if k not in b}
        if new: alarms[i] = new
    res['false_alarms'] = alarms
finally:
    shutil.rmtree(scratch, ignore_errors=True); shutil.rmtree(scratch + '_verif', ignore_errors=True)
print(json.dumps(res, indent=1))
