#!/bin/sh
# usage: tools/demo.sh <demo_test.go> [extra go test args]
# Runs a demonstration test against /repo WITHOUT writing into /repo: the file is
# mapped into the package directory named on its "// dest:" line through `go test -overlay`.
set -eu
F=$(readlink -f "$1"); shift
DEST=$(sed -n 's,^// dest: *,,p' "$F" | head -1)
RUN=$(sed -n 's,^// run: *,,p' "$F" | head -1)
export PATH=/opt/veriftools/go1.26.8/bin:$PATH GOTOOLCHAIN=local GOFLAGS=-mod=mod GOPROXY=off GOSUMDB=off
unset GOWORK
OV=$(mktemp /tmp/overlay.XXXXXX.json)
printf '{"Replace":{"%s/%s/zz_verif_demo_test.go":"%s"}}' "${GROG_REPO:-/repo}" "$DEST" "$F" > "$OV"
cd "${GROG_REPO:-/repo}"
set +e
go test -vet=off -count=1 -overlay "$OV" -run "$RUN" "$@" "./$DEST/"
RC=$?
rm -f "$OV"
exit $RC
