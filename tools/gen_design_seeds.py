#!/usr/bin/env python3
"""Regenerates the seed table of DESIGN.md section 10 from /verif/seeded/*/meta.json."""
import json, glob, os
rows = []
for mf in sorted(glob.glob('/verif/seeded/*/meta.json')):
    m = json.load(open(mf))
    sid = os.path.basename(os.path.dirname(mf))
    def clip(t, n):
        t = (t or '').replace('\n', ' ').replace('|', '\\|')
        return t if len(t) <= n else t[:n] + '…'
    caught = '; '.join('%s: `%s`' % (k, v[0]) for k, v in sorted((m.get('reported_obligations') or {}).items()) if v)
    if not caught:
        caught = '**not caught** — ' + clip(m.get('why_not_caught', ''), 400)
    rows.append('| %s | %s | %s | %s | %s |' % (sid, m.get('property'), clip(m.get('summary'), 230), clip(m.get('needs_to_manifest'), 200), caught))
s = open('/verif/DESIGN.md').read()
a = s.index('| seed | property | what the change does |')
b = s.index('## 11. Corrections')
head = '| seed | property | what the change does | needs to manifest | caught by (first obligation per check) |\n|---|---|---|---|---|\n'
s = s[:a] + head + '\n'.join(rows) + '\n\n' + s[b:]
open('/verif/DESIGN.md', 'w').write(s)
print(len(rows), 'seeds')
