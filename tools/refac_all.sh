#!/bin/sh
# evaluate every refactor patch under /tmp/seed/R*_* (or the listed ones); print new non-discharged keys
cd /verif
LIST=${@:-$(ls -d /tmp/seed/R*_[0-9] | xargs -n1 basename)}
for r in $LIST; do echo $r; done | xargs -P 3 -I{} sh -c 'tools/refac_eval.py /tmp/seed/{} > /tmp/seed/refeval_{}.json 2>/dev/null'
for r in $LIST; do python3 -c "
import json; e=json.load(open('/tmp/seed/refeval_$r.json')); print(e['refactor'], e['patch_applies'], e['builds'], {k:list(v.keys()) for k,v in e['false_alarms'].items()})"; done
