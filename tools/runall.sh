#!/bin/sh
# run every registered quick check against a repository tree; print one line per check
REPO=${1:-/repo}; VERIF=${2:-/verif}
export PATH=/opt/veriftools/go1.26.8/bin:$PATH GOTOOLCHAIN=local GOFLAGS=-mod=mod GOPROXY=off GOSUMDB=off; unset GOWORK
for i in C01 C02 C03 C04 C05 C06 C07 C08 C09 C10 C11 C12 C13 C14 C15 C16 C17 C18 C19 C20; do echo $i; done | xargs -P 6 -I{} sh -c "/verif/bin/grogcheck check {} -repo $REPO -verif $VERIF > /tmp/runall_{}.out 2>&1; echo {} exit=\$? \$(grep -c '^VIOLATION' /tmp/runall_{}.out) violations \$(grep -c KNOWN-FINDING /tmp/runall_{}.out) known" | sort
