#!/usr/bin/env python3
"""Import confirmed seeds from /tmp/seed/<id> (patch.diff, demonstration, agent meta.json, eval.json written by
seed_eval.py) into /verif/seeded/<id>/. usage: seed_import.py <round> <id>..."""
import json, os, shutil, sys
rnd = int(sys.argv[1])
for sid in sys.argv[2:]:
    src, dst = '/tmp/seed/' + sid, '/verif/seeded/' + sid
    a = json.load(open(src + '/meta.json'))
    e = json.load(open(src + '/eval.json'))
    assert e['patch_applies'] and e['builds'] and e['demo_without_patch'] == 'PASS' and e['demo_with_patch'] == 'FAIL' and not {k: v for k, v in e['unit_diff'].items() if k != 'grog/internal/worker'}, (sid, e)  # TestRunWithConcurrentShutdown is flaky on the unchanged tree too
    os.makedirs(dst, exist_ok=True)
    for f in os.listdir(src):
        if f in ('eval.json', 'eval.err', 'meta.json') or f.endswith('.txt') and f != 'demo_cmd.txt':
            continue
        shutil.copy(os.path.join(src, f), os.path.join(dst, f))
    m = {
        'property': a.get('property', sid[:3]), 'variant': sid[3:], 'round': rnd,
        'origin': 'written by an independent sub-agent that was given only the property text, one-line summaries of the earlier seeds of that property (to avoid repeating a mechanism) and a scratch worktree of /repo (nothing from /verif)',
        'summary': a.get('summary'), 'breaks': a.get('breaks'), 'needs_to_manifest': a.get('needs_to_manifest'),
        'files_changed': a.get('files_changed'), 'demo_file_dest': a.get('demo_file_dest'),
        'demo_cmd': (a.get('demo_cmd') or open(src + '/demo_cmd.txt').read().strip().splitlines()[-1]).replace('/tmp/seed/', '/verif/seeded/'),
        'confirmed_by_me': {
            'how': 'tools/seed_eval.py in a scratch copy of /repo: patch applied, go build ./..., go test ./internal/... compared with the unchanged tree, demonstration run with and without the patch, then every registered check run against the patched copy and compared with its verdict on the unchanged tree',
            'patch_applies': True, 'builds': True, 'unit_tests': 'same per-package results as the unchanged tree',
            'demo_without_patch': 'PASS', 'demo_with_patch': 'FAIL'},
        'caught_by': sorted(e['fired'].keys()), 'caught_by_own_property': bool(e['detected_by_own_property']),
        'reported_obligations': e['fired'],
    }
    json.dump(m, open(dst + '/meta.json', 'w'), indent=1)
    print('imported', sid)
