#!/usr/bin/env python3
"""Write the prompt files of one refactoring wave: /tmp/refprompts/<group>.md. Each names an area of the code
base and asks for behaviour-preserving rewrites of it - nothing about the checker."""
import sys
areas = {
 'R41': ("internal/label (target_label.go, target_pattern.go): the label/pattern parsers, the String() printers and TargetPattern.Matches",
         "e.g. split Matches into package/name helpers; write the conditions as a switch or with boolean locals; use strings.CutPrefix or a length-and-byte check for the `prefix/` boundary; build strings with strings.Builder or fmt.Sprintf; use strings.Cut / IndexByte in the parsers; hoist shared parsing into a helper used by both parsers"),
 'R42': ("internal/selection (selector.go, build_selection.go): the Selector's filter methods (patterns, tags, exclude-tags, target type, platforms) and the selection closure",
         "e.g. extract `matchesAnyPattern(label)`; early returns vs. a single boolean expression; range loops vs. slices.ContainsFunc; precomputing tag sets; reordering independent conjuncts; splitting nodeMatchesFilters per node kind"),
 'R43': ("internal/hashing (hash_files.go, hash_target.go, target_hasher.go, hash_strings.go, get_hasher.go): file hashing, the change hash of a target, the TargetHasher",
         "e.g. split GetTargetChangeHash into helpers; let HashFiles use a helper that opens/copies/closes one file with defer; copy the file list before sorting; pass the hasher as a parameter; replace fmt.Sprintf joins by equivalent concatenation; io.CopyBuffer with a reused buffer. The produced hash VALUES must stay byte-identical"),
 'R44': ("internal/execution (execute_target.go, output_checks.go, execute.go): running a target's command and its output checks, the cache gate in getTaskFunc, executeTarget/OnTargetComplete",
         "e.g. extract the construction of the exec.Cmd into a helper; compute boolean conditions into named locals before branching; early-return restructurings of the cache-hit decision; move logging; split OnTargetComplete; helper for the timeout context"),
 'R45': ("internal/output/handlers (dir_output_handler.go, file_output_handler.go): writing and restoring file and directory outputs, the 'already present locally, skip the restore' decisions",
         "e.g. extract `isUpToDate(...)` helpers for the skip decision; restructure Load into phases (load record, compare, clear, restore); named result variables; errgroup vs. WaitGroup where equivalent; helper for mode computation"),
 'R46': ("internal/caching (cas.go, target_result_cache.go, taint_cache.go) and internal/caching/backends (fs.go, remote_wrapper.go): the content store, the fs backend's temp-file + rename write, the remote wrapper",
         "e.g. extract the staged write into helpers; defer-based cleanup; early returns; merging/splitting Exists+Set logic without changing which calls happen in which order or which errors are returned"),
 'R47': ("internal/loading (starlark_loader.go, package_loader.go, loader helpers): the Starlark loader, its per-file module cache and load context, package enrichment",
         "e.g. construct the module load context in a `newModuleLoadContext()` helper; wrap the module cache map in a small type with get/put methods while it stays one cache per BUILD file; build the predeclared dict in a helper; restructure loadModule's cycle detection with defer"),
 'R48': ("internal/dag (graph.go, graph_walker.go) and internal/analysis (output_conflicts.go, target_constraints.go): graph traversals (GetAncestors/GetDescendants/collectReachable, FindCycle), the walker's completion handling, output-conflict detection",
         "e.g. recursive -> iterative traversal with an explicit stack (keeping the visited set); preallocation; memoising COMPLETE per-node results where provably equivalent; splitting onComplete; boolean locals for readiness conditions; helper predicates returning bool"),
 'R49': ("internal/locking (workspace_locker.go), internal/worker, internal/cmd/cmds (build.go, taint.go, clean.go, deps/rdeps/owners/list commands)",
         "e.g. extract the stale-lock classification into helpers returning bool/enums; restructure the acquire loop; early returns in cobra Run functions; share label-printing helpers between query commands; named boolean conditions"),
 'R50': ("anywhere in internal/: pick functions that return bool or (value, bool) and decide something with several conditions (filters, cache-hit decisions, containment tests, staleness tests, platform matching)",
         "rewrite them between equivalent forms: chains of early returns <-> one boolean expression with && / ||; `ok := a && b; if !ok { return false }`; switch-true forms; extracting a sub-condition into a helper that returns bool; De Morgan rewrites; returning a comparison directly instead of if/else"),
}
for g, (area, ideas) in areas.items():
    txt = f"""# Task {g}

You are working on the Go project chrismatix/grog (a monorepo build tool). Your own scratch git worktree of it is `/tmp/wt/{g}` — work ONLY there.
Never read or write `/repo` or `/verif`.

Every shell call needs: `export PATH=/opt/veriftools/go1.26.8/bin:$PATH GOTOOLCHAIN=local GOFLAGS=-mod=mod GOPROXY=off GOSUMDB=off; unset GOWORK`
(no network). `go build ./...` and `go test -vet=off -count=1 ./internal/...` work in the worktree (package grog/internal/completions fails on the
unchanged tree too, ignore it; TestRunWithConcurrentShutdown in internal/worker is flaky). NEVER use `git stash` (the worktrees share one stash and other agents work concurrently).

## What to produce

FOUR independent **behaviour-preserving refactorings** of this area:

**{area}**

Each one is the kind of clean-up or micro-optimisation a careful maintainer would accept: the observable behaviour of grog (results, errors and their texts,
what is executed/cached/restored, hash values, ordering of output, concurrency safety, what happens on faults and cancellation) must be EXACTLY the same as before,
for every input. They should still be substantial — restructure control flow, extract or inline helpers, change data structures locally, rename — not cosmetic.
Ideas: {ideas}.
Make the four as different from each other as you can (different functions or different kinds of rewrite). Each must compile and pass the existing tests on its own
(each is relative to the unchanged tree, not stacked).

For each refactoring k = 1..4: start from a clean tree (`git checkout -- . && git clean -fdq`), make the change, run `go build ./...` and the tests of the touched packages,
then write to `/tmp/refac/{g}_k/` (create it): `patch.diff` (`git diff`, -p1 applicable to the unchanged tree) and `meta.json` with fields
`group` ("{g}"), `variant` (k), `summary` (what was rewritten), `why_behaviour_preserved` (your argument, case by case), `files_changed` (list), `unit_tests` ("same as baseline" if so).
Think hard about equivalence: if you are not sure a rewrite is behaviour-preserving in every case (nil slices, empty strings, error paths, evaluation order, aliasing), choose a different one.

Leave the worktree clean at the end and reply with one line per refactoring.
"""
    open('/tmp/refprompts/%s.md' % g, 'w').write(txt)
    print(g)
