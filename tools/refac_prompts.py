#!/usr/bin/env python3
"""Write the prompt files of one refactoring wave: /tmp/refprompts/<group>.md. Each names an area of the code
base and asks for behaviour-preserving rewrites of it - nothing about the checker."""
import sys
areas = {
 'R51': ("locking and mutual exclusion inside internal/execution (execute.go: LoadDependencyOutputs, the executor's per-target state), internal/maps (mutex_map.go), internal/hashing/target_hasher.go, internal/output/registry.go",
         "e.g. extract lock/unlock pairs into `withLock(key, func() error)` helpers; replace defer-unlock by explicit unlock on each exit or vice versa where provably equivalent; narrow or merge critical sections without changing what they protect; per-iteration closures `func() { lock; defer unlock; ... }()` inside loops"),
 'R52': ("internal/worker (task_worker_pool.go, progress_tracker.go) and the Pkl loader's panic handling (internal/loading/pkl_loader.go)",
         "e.g. extract the worker loop body; restructure enqueue's closed-pool handling (keeping its recover semantics exactly); named results vs. explicit returns; helper `recoverAsError(&err)` used by deferred functions; channels vs. condition variables only where equivalent"),
 'R53': ("internal/caching/backends (s3.go, gcs.go, fs.go, remote_wrapper.go): how content streams are copied, closed and errors reported",
         "e.g. helper `copyAndClose(dst, src) error`; io.CopyBuffer with a pooled buffer; explicit io.EOF handling loops equivalent to io.Copy; wrapping errors at one place; early returns"),
 'R54': ("process execution plumbing: internal/execution/execute_target.go (runTargetCommand, getCommand) and internal/cmd/cmds/run.go (newBinaryRunCommand, runTargetBinaries)",
         "e.g. extract `newShellCommand(ctx, script, dir, env)`; build the environment in a helper; set Stdout/Stderr through an `attachOutput(cmd, w)` helper; move the WaitDelay constant; table-driven env construction. Behaviour under cancellation and timeouts must be identical"),
 'R55': ("internal/output/handlers/dir_output_handler.go: Write, writeDirectoryRecursive, uploadFiles, getSortedChildren (building the directory tree record and uploading file blobs)",
         "e.g. collect entries into typed slices then build nodes; explicit sort helpers; split the recursive function; a worker-pool helper for uploads that keeps result ORDER and error semantics; preallocation. The tree digest must stay byte-identical"),
 'R56': ("internal/loading/enrich_package.go (getEnrichedPackage, resolveInputs, exclusion handling) and internal/loading/load.go",
         "e.g. split resolveInputs into expand/exclude phases; use a set type for exclusions; slices.DeleteFunc instead of a filter loop; helper predicates `isGlobPattern`, `isExcluded`; early returns"),
 'R57': ("the BUILD file loaders' value conversion: internal/loading/starlark_loader.go (starlark value -> Go), makefile_loader.go (annotation parsing), json/yaml loaders, dto.go",
         "e.g. table-driven field conversion; generic helpers `stringList(v)`, `stringMap(v)`; consolidating error wrapping; switch on starlark types; strings.Cut based parsing. The loaded targets must be identical for every input, including error texts"),
 'R58': ("internal/caching (taint_cache.go, target_cache.go, cas.go) and their use in internal/execution/execute.go and internal/cmd/cmds/taint.go",
         "e.g. key helper functions; early returns; a small `resultStore` interface used by the executor; moving the taint clear into a helper that keeps its position relative to the completion; consolidating logging"),
}
for g, (area, ideas) in areas.items():
    txt = f"""# Task {g}

You are working on the Go project chrismatix/grog (a monorepo build tool). Your own scratch git worktree of it is `/tmp/wt/{g}` — work ONLY there.
Never read or write `/repo` or `/verif`.

Every shell call needs: `export PATH=/opt/veriftools/go1.26.8/bin:$PATH GOTOOLCHAIN=local GOFLAGS=-mod=mod GOPROXY=off GOSUMDB=off; unset GOWORK`
(no network). `go build ./...` and `go test -vet=off -count=1 ./internal/...` work in the worktree (package grog/internal/completions fails on the
unchanged tree too, ignore it; TestRunWithConcurrentShutdown in internal/worker is flaky). NEVER use `git stash` (the worktrees share one stash and other agents work concurrently).

## What to produce

FOUR independent **behaviour-preserving refactorings** of this area:

**{area}**

Each one is the kind of clean-up or micro-optimisation a careful maintainer would accept: the observable behaviour of grog (results, errors and their texts,
what is executed/cached/restored, hash values, ordering of output, concurrency safety, what happens on faults and cancellation) must be EXACTLY the same as before,
for every input. They should still be substantial — restructure control flow, extract or inline helpers, change data structures locally, rename — not cosmetic.
Ideas: {ideas}.
Make the four as different from each other as you can (different functions or different kinds of rewrite). Each must compile and pass the existing tests on its own
(each is relative to the unchanged tree, not stacked).

For each refactoring k = 1..4: start from a clean tree (`git checkout -- . && git clean -fdq`), make the change, run `go build ./...` and the tests of the touched packages,
then write to `/tmp/refac/{g}_k/` (create it): `patch.diff` (`git diff`, -p1 applicable to the unchanged tree) and `meta.json` with fields
`group` ("{g}"), `variant` (k), `summary` (what was rewritten), `why_behaviour_preserved` (your argument, case by case), `files_changed` (list), `unit_tests` ("same as baseline" if so).
Think hard about equivalence: if you are not sure a rewrite is behaviour-preserving in every case (nil slices, empty strings, error paths, evaluation order, aliasing), choose a different one.

Leave the worktree clean at the end and reply with one line per refactoring.
"""
    open('/tmp/refprompts/%s.md' % g, 'w').write(txt)
    print(g)
