#!/bin/sh
# thorough tier of every check: prints the arming line and every undetected variant
export PATH=/opt/veriftools/go1.26.8/bin:$PATH GOTOOLCHAIN=local GOFLAGS=-mod=mod GOPROXY=off GOSUMDB=off; unset GOWORK
for i in C01 C02 C03 C04 C05 C06 C07 C08 C09 C10 C11 C12 C13 C14 C15 C16 C17 C18 C19 C20; do echo $i; done | xargs -P 3 -I{} sh -c "/verif/bin/grogcheck check {} -tier thorough -repo /repo -verif /verif > /tmp/armall_{}.out 2>&1; echo {} exit=\$? \$(grep 'thorough:' /tmp/armall_{}.out); grep 'NOT detected' /tmp/armall_{}.out" | sort
