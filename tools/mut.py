#!/usr/bin/env python3
"""Developer aid: apply a textual mutation to a scratch copy of /repo and run one
property's check against it.  usage: mut.py <ID>[,<ID>...] <file> <old> <new> [--count N]
Nothing is written under /repo. The scratch copy lives in /tmp/grogmut and is removed afterwards."""
import sys, subprocess, shutil, os
ids, f, old, new = sys.argv[1].split(','), sys.argv[2], sys.argv[3], sys.argv[4]
scratch = '/tmp/grogmut_%d' % os.getpid()
subprocess.check_call(['rsync', '-a', '--exclude', '.git', '/repo/', scratch + '/'])
os.makedirs(scratch + '_verif/evidence', exist_ok=True)
shutil.copy('/verif/known_findings.json', scratch + '_verif/known_findings.json')
p = os.path.join(scratch, f)
s = open(p).read()
if old not in s:
    print('OLD TEXT NOT FOUND'); shutil.rmtree(scratch); sys.exit(3)
s = s.replace(old, new, 1)
open(p, 'w').write(s)
env = dict(os.environ, PATH='/opt/veriftools/go1.26.8/bin:' + os.environ['PATH'], GOTOOLCHAIN='local', GOFLAGS='-mod=mod', GOPROXY='off', GOSUMDB='off')
r = subprocess.run(['go', 'build', './...'], cwd=scratch, env=env, capture_output=True, text=True)
print('build:', 'ok' if r.returncode == 0 else 'FAILED\n' + r.stderr[:2000])
rc = 0
if r.returncode == 0:
    for i in ids:
        r = subprocess.run(['/verif/bin/grogcheck', 'check', i, '-repo', scratch, '-verif', scratch + '_verif'], env=env, capture_output=True, text=True)
        out = [l for l in r.stdout.splitlines() if 'violated' in l or 'undecided' in l or 'VIOLATION' in l or 'incomplete' in l]
        print(i, 'exit', r.returncode); print('\n'.join(l[:260] for l in out[:12]))
shutil.rmtree(scratch); shutil.rmtree(scratch + '_verif')
