#!/usr/bin/env python3
"""Confirm a seeded change (compiles, unit tests as baseline, demo fails with / passes without)
and run the registered checks against it in a scratch copy of /repo.
usage: seed_eval.py <seed dir> [--no-confirm] [--props C01,C02]"""
import sys, os, json, subprocess, shutil, re
GC = os.environ.get('GROGCHECK', '/verif/bin/grogcheck')
BASE = '/tmp/seed/base_verif' + ('_dev' if GC.endswith('.dev') else '')
seed = sys.argv[1].rstrip('/')
confirm = '--no-confirm' not in sys.argv
props = None
for i, a in enumerate(sys.argv):
    if a == '--props': props = sys.argv[i + 1].split(',')
env = dict(os.environ, PATH='/opt/veriftools/go1.26.8/bin:' + os.environ['PATH'], GOTOOLCHAIN='local', GOFLAGS='-mod=mod', GOPROXY='off', GOSUMDB='off')
env.pop('GOWORK', None)
meta = json.load(open(seed + '/meta.json'))
scratch = '/tmp/seedchk_%d' % os.getpid()
def sh(cmd, cwd=scratch, timeout=900):
    r = subprocess.run(cmd, shell=True, cwd=cwd, env=env, capture_output=True, text=True, timeout=timeout)
    return r.returncode, r.stdout + r.stderr
def pkgstatus(out):
    st = {}
    for l in out.splitlines():
        m = re.match(r'^(ok|FAIL|---)\s+(grog/\S+)', l)
        if m and m.group(1) != '---': st[m.group(2)] = m.group(1)
    return st
subprocess.check_call(['rsync', '-a', '--exclude', '.git', '/repo/', scratch + '/'])
res = {'seed': os.path.basename(seed), 'property': meta.get('property')}
try:
    demo_dest = (meta.get('demo_file_dest') or '').split(' (')[0].strip()
    if demo_dest.endswith('/') or demo_dest in ('', '.'):
        demo_dest = ''

    demo_cmd = meta.get('demo_cmd') or open(seed + '/demo_cmd.txt').read().strip().splitlines()[-1]
    demo_files = [f for f in os.listdir(seed) if f not in ('patch.diff', 'meta.json', 'demo_cmd.txt', 'README', 'README.md', 'unit_with_patch.txt', 'eval.json', 'eval.err') and not f.endswith('.txt')]
    def place_demo():
        for f in demo_files:
            dest = demo_dest if (demo_dest and len(demo_files) == 1 and os.path.splitext(demo_dest)[1] == os.path.splitext(f)[1]) else os.path.join(os.path.dirname(demo_dest or ''), f)
            os.makedirs(os.path.dirname(os.path.join(scratch, dest)), exist_ok=True)
            shutil.copy(os.path.join(seed, f), os.path.join(scratch, dest))
            yield os.path.join(scratch, dest)
    if confirm:
        placed = list(place_demo())
        rc, out = sh(demo_cmd)
        res['demo_without_patch'] = 'PASS' if rc == 0 else 'FAIL'
        for p in placed: os.remove(p)
    rc, out = sh('patch -p1 --no-backup-if-mismatch < %s/patch.diff' % seed)
    res['patch_applies'] = rc == 0
    if rc != 0: res['patch_out'] = out[-500:]
    rc, out = sh('go build ./...')
    res['builds'] = rc == 0
    if confirm and res['builds']:
        base = json.load(open('/verif/tools/unit_baseline.json')) if os.path.exists('/verif/tools/unit_baseline.json') else None
        rc, out = sh('go test -vet=off -count=1 ./internal/... 2>&1')
        st = pkgstatus(out)
        res['unit_diff'] = {k: (base.get(k), st.get(k)) for k in set(st) | set(base or {}) if base and base.get(k) != st.get(k)}
        placed = list(place_demo())
        rc, out = sh(demo_cmd)
        res['demo_with_patch'] = 'PASS' if rc == 0 else 'FAIL'
        for p in placed: os.remove(p)
    # run checks
    manifest = json.load(open('/verif/MANIFEST.json'))
    ids = props or [c['property_id'] for c in manifest['checks']]
    os.makedirs(scratch + '_verif/evidence', exist_ok=True)
    shutil.copy('/verif/known_findings.json', scratch + '_verif/known_findings.json')
    fired = {}
    def badkeys(evfile):
        try:
            ev = json.load(open(evfile))
        except Exception:
            return {'<no evidence>'}
        return {o['key'] for o in ev['coverage'].get('samples', []) if o['status'] != 'discharged'} | ({'<incomplete>'} if not ev['coverage'].get('samples') else set())
    os.makedirs(BASE + '/evidence', exist_ok=True)
    shutil.copy('/verif/known_findings.json', BASE + '/known_findings.json')
    for i in ids:
        basef = BASE + '/evidence/%s.json' % i
        if not os.path.exists(basef) or os.path.getmtime(basef) < os.path.getmtime(GC):
            subprocess.run([GC, 'check', i, '-repo', '/repo', '-verif', BASE + ''], env=env, capture_output=True, text=True)
        subprocess.run([GC, 'check', i, '-repo', scratch, '-verif', scratch + '_verif'], env=env, capture_output=True, text=True)
        new = badkeys(scratch + '_verif/evidence/%s.json' % i) - badkeys(basef)
        if new:
            fired[i] = sorted(new)[:6]
    res['fired'] = fired
    res['detected_by_own_property'] = meta.get('property') in fired
    res['detected'] = bool(fired)
finally:
    shutil.rmtree(scratch, ignore_errors=True); shutil.rmtree(scratch + '_verif', ignore_errors=True)
print(json.dumps(res, indent=1))
