#!/usr/bin/env python3
"""one line per seed from /tmp/seed/<id>/eval2.json (re-evaluation without confirmation)"""
import json, sys, os
for s in sys.argv[1:]:
    try: e = json.load(open('/tmp/seed/%s/eval2.json' % s))
    except Exception as ex: print(s, 'NO EVAL2', ex); continue
    own = s[:3]
    print(s, 'OWN' if e.get('detected_by_own_property') else 'MISS', e.get('fired', {}).get(own, [])[:3], 'others:', sorted(k for k in e.get('fired', {}) if k != own))
