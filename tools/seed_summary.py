#!/usr/bin/env python3
"""print one line per evaluated seed in /tmp/seed"""
import json, sys, os, glob
for d in sorted(glob.glob('/tmp/seed/C???')):
    s = os.path.basename(d)
    if sys.argv[1:] and s not in sys.argv[1:]: continue
    try: e = json.load(open(d + '/eval.json'))
    except Exception as ex:
        print(s, 'NO EVAL', (open(d + '/eval.err').read()[-300:] if os.path.exists(d + '/eval.err') else '')); continue
    ok = e.get('patch_applies') and e.get('builds') and e.get('demo_without_patch') == 'PASS' and e.get('demo_with_patch') == 'FAIL'
    print(s, 'CONFIRMED' if ok else 'UNCONFIRMED(%s,%s,%s,%s)' % (e.get('patch_applies'), e.get('builds'), e.get('demo_without_patch'), e.get('demo_with_patch')), 'unit_diff=', e.get('unit_diff'), 'OWN' if e.get('detected_by_own_property') else 'MISS', {k: v[:2] for k, v in e.get('fired', {}).items()})
