#!/usr/bin/env python3
"""Regenerates DESIGN.md section 5 (per-property rule tables) from the evidence of the last run."""
import json, re
ids = ["C%02d" % i for i in range(1, 21)]
out = ["## 5. Per-property rules as implemented", "",
       "Generated (`tools/gen_design_rules.py`) from the evidence of the current run (`coverage.rules`); \"instances today\" is the",
       "number of obligations the rule produced on the repaired tree, \"min\" the frozen lower bound.", ""]
for i in ids:
    ev = json.load(open('/verif/evidence/%s.json' % i))
    exp = ev['coverage']['explanation']
    m = re.search(r'DECIDES: (.*?) DOES NOT DECIDE: (.*?) RULES: ', exp, re.S)
    out += ["### %s — claimed, level `other`" % i, "", "*Decides:* " + m.group(1).strip(), "", "*Does not decide:* " + m.group(2).strip(), "",
            "| rule | instances today (min) | what it requires |", "|---|---|---|"]
    for r in ev['coverage']['rules']:
        out.append("| %s | %d (%d) | %s |" % (r['id'], r['instances'], r['min_instances'], r['doc'].replace('|', '\\|')))
    known = [o for o in ev['coverage']['samples'] if o.get('known_finding')]
    out += ["", "%d obligations, %d discharged, %d known findings." % (ev['coverage']['obligations'], ev['coverage']['discharged'], len(known)), ""]
s = open('/verif/DESIGN.md').read()
a = s.index('## 5. Per-property rules as implemented')
b = s.index('## 6. Findings on the pinned tree')
s = s[:a] + "\n".join(out) + "\n" + s[b:]
open('/verif/DESIGN.md', 'w').write(s)
print("section 5 regenerated for", len(ids), "properties")
